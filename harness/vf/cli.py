"""./check <ID> [--tier quick|thorough] [--replay file]   |   ./check setup"""
import argparse
import importlib
import os
import sys
import traceback


def main():
    ap = argparse.ArgumentParser()
    ap.add_argument("target")
    ap.add_argument("--tier", default=os.environ.get("VERIF_TIER", "quick"), choices=["quick", "thorough"])
    ap.add_argument("--replay", default=None)
    ap.add_argument("--seed", type=int, default=int(os.environ.get("VERIF_SEED", "0") or 0))
    a = ap.parse_args()
    if a.target == "setup":
        from vf import setup
        sys.exit(setup.main())
    if a.tier == "thorough":
        os.environ["VF_THOROUGH"] = "1"
    pid = a.target.upper()
    try:
        mod = importlib.import_module("vf.adapters." + pid.lower())
    except ImportError:
        traceback.print_exc()
        print("MACHINERY: no adapter for " + pid)
        sys.exit(2)
    from vf.core import Ctx, load_replay
    from vf.tlc import TLCError
    ctx = Ctx(pid, a.tier, a.seed, getattr(mod, "LEVEL", "model_checking"))
    try:
        if a.replay:
            rc = mod.replay(ctx, load_replay(a.replay))
        else:
            rc = mod.run(ctx)
    except TLCError as e:
        print("MACHINERY: " + str(e)[:4000])
        rc = 1 if ctx.violations else 2
    except SystemExit:
        raise
    except Exception:
        traceback.print_exc()
        print("MACHINERY: adapter crashed")
        rc = 1 if ctx.violations else 2
        if ctx.violations:
            print("%s: %d violation(s) (run incomplete)" % (pid, ctx.violations))
    sys.exit(rc)


if __name__ == "__main__":
    main()
