"""Batch trace validation: many recorded executions per TLC invocation.

A *Trace.tla module reads IOEnv.TRACE_FILE (a JSON sequence of [id, ..., ev]); each trace is
explored from its own initial state; the invariant `Accept` prints <<"ACCEPT", id>> when the
whole trace has been consumed and `Progress` prints <<"AT", id, l>> for every reached position.
"""
import re

from vf import tlc


def validate(ctx, module, cfg, traces, tag, workers=8, timeout=1200, dfs=False, heap="4g"):
    """Returns (accepted ids, TLCResult).  cfg must contain 'INVARIANT Accept'."""
    path = tlc.write_json(traces, tag)
    r = tlc.run(module, cfg_text=cfg, env={"TRACE_FILE": path}, workers=workers, timeout=timeout, dfs=dfs, heap=heap)
    ctx.add_tlc("trace-" + tag, r)
    if r.errors and not r.violated:
        ctx.machinery("TLC error during trace validation (%s):\n%s" % (tag, r.counterexample()))
    acc = set(int(x) for x in re.findall(r'<<"ACCEPT", (\d+)>>', r.out))
    return acc, r


def first_unmatched(module, cfg, trace, timeout=600):
    """Index (0-based) of the first event of `trace` that TLC cannot match, and TLC's output."""
    path = tlc.write_json([trace], "one")
    lines = [l for l in cfg.splitlines() if not l.startswith("PROPERTY")]
    cfg2 = "\n".join(lines) + "\nINVARIANT Progress\n"
    r = tlc.run(module, cfg_text=cfg2, env={"TRACE_FILE": path}, workers=1, timeout=timeout)
    best = 1
    for m in re.finditer(r'<<"AT", \d+, (\d+)>>', r.out):
        best = max(best, int(m.group(1)))
    return best - 1, r
