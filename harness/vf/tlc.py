"""Run TLC (model checking, simulation, trace validation) and parse what it printed.

Nothing here knows about basic_robotics.  A TLC run is always wrapped in a timeout, its
metadir lives under /verif/.cache and is removed afterwards.
"""
import json
import os
import re
import shutil
import subprocess
import time
import uuid

VERIF = os.path.dirname(os.path.dirname(os.path.dirname(os.path.abspath(__file__))))
SPEC_DIR = os.path.join(VERIF, "spec")
CACHE = os.path.join(VERIF, ".cache")
if os.environ.get("VF_REPO"):      # scratch run against another checkout: its own scratch area, so it can run beside a normal run
    CACHE = os.path.join(CACHE, "alt", os.environ["VF_REPO"].strip("/").replace("/", "_"), "cache")
    os.makedirs(CACHE, exist_ok=True)
JAR = "/opt/veriftools/tla/tla2tools.jar"
DEPS = "/opt/veriftools/tla/CommunityModules-deps.jar"


class TLCError(Exception):
    """Machinery failure (TLC crashed, spec does not parse, time-out)."""


class TLCResult:
    def __init__(self, out, wall):
        self.wall = wall
        self.json = []
        rest = []
        for line in out.splitlines():
            if line.startswith('"{') or line.startswith('"['):
                try:
                    self.json.append(json.loads(json.loads(line)))
                    continue
                except Exception:
                    pass
            rest.append(line)
        out = self.out = "\n".join(rest)
        self.generated = 0
        self.distinct = 0
        self.depth = 0
        m = None
        for m in re.finditer(r"(\d+) states generated, (\d+) distinct states found", out):
            pass
        if m:
            self.generated, self.distinct = int(m.group(1)), int(m.group(2))
        m = re.search(r"depth of the complete state graph search is (\d+)", out)
        if m:
            self.depth = int(m.group(1))
        self.violated = re.findall(r"Error: Invariant (\S+) is violated", out)
        self.initial_violation = "is violated by the initial state" in out
        self.violated += re.findall(r"Error: Action property (\S+) is violated", out)
        if "Temporal properties were violated" in out:
            self.violated.append("temporal")
        if "Deadlock reached" in out:
            self.violated.append("deadlock")
        self.errors = [l for l in rest if l.startswith("Error:")]
        self.coverage = {}
        for m in re.finditer(r"^<(\w+) line \d+, col \d+ to line \d+, col \d+ of module (\w+)>: (\d+):(\d+)", out, re.M):
            self.coverage[m.group(1)] = self.coverage.get(m.group(1), 0) + int(m.group(4))

    @property
    def ok(self):
        return not self.violated and not self.errors

    def counterexample(self):
        i = self.out.find("Error:")
        return self.out[i:i + 6000] if i >= 0 else ""


def _write_cfg(cfg_text, tag):
    os.makedirs(os.path.join(CACHE, "cfg"), exist_ok=True)
    p = os.path.join(CACHE, "cfg", "%s-%s.cfg" % (tag, uuid.uuid4().hex[:8]))
    with open(p, "w") as f:
        f.write(cfg_text)
    return p


def run(module, cfg=None, cfg_text=None, workers=16, timeout=600, env=None, simulate=None,
        depth=None, seed=None, deadlock=False, coverage=False, dfs=False, heap="4g", extra=()):
    """Run TLC on spec/<module>.tla.  cfg: file name under spec/cfg; cfg_text: literal cfg."""
    spec = os.path.join(SPEC_DIR, module + ".tla")
    if cfg_text is not None:
        cfgp = _write_cfg(cfg_text, module)
    else:
        cfgp = os.path.join(SPEC_DIR, "cfg", cfg)
    meta = os.path.join(CACHE, "tlc", uuid.uuid4().hex)
    os.makedirs(meta, exist_ok=True)
    cmd = ["java", "-XX:+UseParallelGC", "-Xmx" + heap, "-Xss64m"]
    if dfs:
        cmd.append("-Dtlc2.tool.queue.IStateQueue=StateDeque")
    cmd += ["-cp", JAR + ":" + DEPS, "tlc2.TLC", "-workers", str(workers), "-metadir", meta,
            "-noGenerateSpecTE", "-config", cfgp]
    if not deadlock:
        cmd.append("-deadlock")
    if coverage:
        cmd += ["-coverage", "1"]
    if simulate:
        cmd += ["-simulate", simulate]
    if depth:
        cmd += ["-depth", str(depth)]
    if seed is not None:
        cmd += ["-seed", str(seed)]
    cmd += list(extra)
    cmd.append(spec)
    e = dict(os.environ)
    e.pop("JAVA_TOOL_OPTIONS", None)
    if env:
        e.update({k: str(v) for k, v in env.items()})
    t0 = time.time()
    try:
        p = subprocess.run(cmd, cwd=SPEC_DIR, env=e, stdout=subprocess.PIPE, stderr=subprocess.STDOUT,
                           timeout=timeout, text=True, errors="replace")
        out = p.stdout
    except subprocess.TimeoutExpired as ex:
        out = ex.stdout if isinstance(ex.stdout, str) else (ex.stdout or b"").decode("utf8", "replace")
        if not simulate:
            raise TLCError("TLC timed out after %ss on %s" % (timeout, module))
    finally:
        shutil.rmtree(meta, ignore_errors=True)
        if cfg_text is not None:
            try:
                os.remove(cfgp)
            except OSError:
                pass
    r = TLCResult(out, time.time() - t0)
    if "Parsing or semantic analysis failed" in out or "java.lang." in out and "Exception" in out and "TLC threw" in out:
        raise TLCError("TLC failed on %s:\n%s" % (module, out[-3000:]))
    if r.generated == 0 and not simulate and not r.initial_violation:
        raise TLCError("TLC produced no states on %s:\n%s" % (module, out[-3000:]))
    return r


def sany(module):
    p = subprocess.run(["java", "-cp", JAR + ":" + DEPS, "tla2sany.SANY", module + ".tla"], cwd=SPEC_DIR,
                       stdout=subprocess.PIPE, stderr=subprocess.STDOUT, text=True)
    ok = p.returncode == 0 and "Semantic errors" not in p.stdout and "Fatal errors" not in p.stdout \
        and "Could not parse" not in p.stdout and "***Parse Error***" not in p.stdout
    return ok, p.stdout


def write_ndjson(events, tag):
    os.makedirs(os.path.join(CACHE, "traces"), exist_ok=True)
    p = os.path.join(CACHE, "traces", "%s-%s.ndjson" % (tag, uuid.uuid4().hex[:8]))
    with open(p, "w") as f:
        for ev in events:
            f.write(json.dumps(ev, separators=(",", ":")) + "\n")
    return p


def write_json(obj, tag):
    os.makedirs(os.path.join(CACHE, "traces"), exist_ok=True)
    p = os.path.join(CACHE, "traces", "%s-%s.json" % (tag, uuid.uuid4().hex[:8]))
    with open(p, "w") as f:
        json.dump(obj, f, separators=(",", ":"))
    return p
