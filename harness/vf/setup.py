"""./check setup : offline build of everything the checks need."""
import hashlib
import os
import sys

from vf import tlc

REF_SHA = "0147b8635e55a77cb9d8bfa02396d20e5c9f63989a6a75b3ba9bec1002b964c7"


def main():
    os.makedirs(tlc.CACHE, exist_ok=True)
    bad = 0
    for f in sorted(os.listdir(tlc.SPEC_DIR)):
        if f.endswith(".tla"):
            ok, out = tlc.sany(f[:-4])
            print("sany %-24s %s" % (f, "ok" if ok else "FAILED"))
            if not ok:
                print(out[-1500:])
                bad += 1
    ref = os.path.join(tlc.VERIF, "vendor", "modern_robotics_ref", "core.py")
    h = hashlib.sha256(open(ref, "rb").read()).hexdigest()
    print("vendored reference modern_robotics core.py sha256 %s" % ("ok" if h == REF_SHA else "MISMATCH"))
    bad += h != REF_SHA
    # warm the numba cache (compiles the @jit kernels of the current tree once)
    try:
        import numpy as np
        from basic_robotics.general import tm
        a = tm([1, 2, 3, .1, .2, .3])
        (a @ a.inv()).gTAA()
        print("basic_robotics import + JIT warm-up ok")
    except Exception as e:  # not fatal for setup: individual checks will report it
        print("warm-up failed: %r" % (e,))
    return 1 if bad else 0


if __name__ == "__main__":
    sys.exit(main())
