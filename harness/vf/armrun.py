"""Replay of Arm.tla behaviours on real Arm objects and evaluation of the obligations the
specification attaches to every visited state (C05 kinematic obligations, C06 Jacobian/statics
obligations).  The oracle is RefEval (product of exponentials by scipy.linalg.expm) applied to
pristine copies of the constructor data."""
import contextlib
import io
import math
import random

import numpy as np

from vf import refeval as rf, zoo

TOL = 1e-7


def pose_tol(theta, reach):
    """tolerance for 'the pose of joint vector theta': TOL plus what a few ulps of theta itself move the tool - a free
    solver may return angles of 1e7..1e9 rad, whose own spacing (5e-7 at 3.6e9) already exceeds TOL"""
    return TOL + 16 * 2.2e-16 * float(np.abs(np.asarray(theta, dtype=float)).sum()) * (1.0 + reach)
PI = math.pi


def free_indices(rng, n):
    """index set handed to Arm.IKFree: all joints, but never more than six - its Levenberg-Marquardt solver takes at
    most as many unknowns as there are residuals (the six pose-error components) and refuses anything else"""
    return list(range(n)) if n <= 6 else sorted(rng.sample(range(n), 6))


def tup(x):
    return tuple(tup(y) for y in x) if isinstance(x, list) else x


def mdiff(a, b):
    a, b = np.asarray(a, dtype=float), np.asarray(b, dtype=float)
    if a.shape != b.shape or not np.all(np.isfinite(a)):
        return float("inf")
    return float(np.abs(a - b).max())


def _dev(r):
    try:
        return mdiff(r[1], r[2])
    except Exception:
        return float("inf")


class Runner:
    def __init__(self, maker, seed, with_c06=False):
        """maker() -> (arm, spec, base0 4x4)"""
        self.rng = random.Random(seed)
        self.arm, self.spec, self.base0 = maker()
        self.n = self.spec["S"].shape[1]
        sp, rng = self.spec, self.rng
        inside = lambda: np.array([rng.uniform(sp["mins"][i] * 0.9, sp["maxs"][i] * 0.9) for i in range(self.n)])
        out = inside()
        for i in range(self.n):
            if rng.random() < 0.6 and sp["maxs"][i] < 2 * PI - 1e-6:
                out[i] = min(2 * PI, sp["maxs"][i] + rng.uniform(0.05, 1.0))
            elif rng.random() < 0.5 and sp["mins"][i] > -2 * PI + 1e-6:
                out[i] = max(-2 * PI, sp["mins"][i] - rng.uniform(0.05, 1.0))
        self.thetas = {1: inside(), 2: inside(), 3: out}
        self.bases = {0: self.base0, 1: zoo.rand_pose(rng, 3.0), 2: zoo.rand_pose(rng, 1.0, 1.0)}
        reach = float(np.abs(sp["M"][:3, 3]).max()) + 1.0
        self.tools = {1: zoo.rand_pose(rng, reach * 0.5), 2: zoo.rand_pose(rng, reach * 0.3, 0.8)}
        self.ik_ret = {}
        self.with_c06 = with_c06
        self.steps = 0
        self.truncated = 0
        self.stop = False
        self.tainted = False
        self.cutoff = False
        self.ik_calls = 0
        self.ik_success = 0

    # ---------------------------------------------------------------- oracle side
    def theta_of(self, ref):
        ref = tup(ref)
        if ref[0] == "pal":
            return self.thetas[ref[1]]
        if ref[0] == "zero":
            return np.zeros(self.n)
        if ref[0] == "ik":
            return self.ik_ret[ref[1]]
        raise ValueError(ref)

    def tool_local(self, tool):
        tool = tup(tool)
        if tool[0] == "orig":
            return self.spec["M"]
        _, n, th, b = tool
        P = rf.poe_space(np.eye(4), self.spec["S"], zoo.clamp(self.spec, self.theta_of(th)))
        return rf.trans_inv(P) @ rf.trans_inv(self.bases[b]) @ self.tools[n]

    def expected_fk(self, st, th):
        return zoo.fk_expected(self.spec, self.bases[st["b"]], self.tool_local(st["t"]), th)

    # ---------------------------------------------------------------- implementation side
    def execute(self, i, rec):
        """Run one spec operation on the real arm.  Returns observation dict."""
        from basic_robotics.general import tm
        arm = self.arm
        op = rec["op"]
        obs = {"op": op}
        with contextlib.redirect_stdout(io.StringIO()):
            if op == "FK":
                th = self.thetas[rec["k"]].copy()
                obs["ret"] = arm.FK(th).gTM()
                obs["theta"] = self.thetas[rec["k"]]
            elif op == "query":
                obs["ret"] = arm.FK(None).gTM()
            elif op == "move":
                arm.move(tm(self.bases[rec["b"]].copy()), stationary=bool(rec["stationary"]))
            elif op == "setArbitraryHome":
                th = None if rec["th"] == 0 else self.thetas[rec["th"]].copy()
                self.note_half_turns(rec, th)
                arm.setArbitraryHome(tm(self.tools[rec["n"]].copy()), th)
            elif op == "restoreOriginalEE":
                arm.restoreOriginalEE()
            elif op == "randomPos":
                obs["ret"] = arm.randomPos().gTM()
            elif op == "IK":
                obs.update(self.do_ik(i, rec))
            else:
                raise ValueError(op)
        self.steps += 1
        return obs

    def note_half_turns(self, rec, th):
        """setArbitraryHome goes through rotation-vector arithmetic (logarithms of the current tool pose, of the
        requested pose, of their relative rotation and of the new home pose).  If one of these rotations is
        within 1e-3 of a half turn the library's logarithm (error ~2e-15/(pi-angle)^2, times the lever arm of the
        tool) is too inaccurate for the 1e-7 comparison (measured: 2e-7 at pi-3.3e-4 on the 6R arm): such
        histories are classified under the known finding log_near_pi."""
        pre = self._cur_state
        j = tup(pre["j"])
        if th is None and j[0] != "known":
            return
        theta = self.theta_of(j[1]) if th is None else th
        E = self.expected_fk(pre, theta)
        N = self.tools[rec["n"]]
        home = self.bases[pre["b"]] @ self.tool_local(pre["t"])
        new_home = home @ rf.trans_inv(E) @ N
        mats = [E, N, rf.trans_inv(E) @ N, home, new_home]
        # the spec lets a base move keep or drop a custom tool, so the tool of the candidate state used above need not be the
        # arm's: classify on the arm's actual tool pose as well (FK(theta) is what setArbitraryHome itself starts with)
        try:
            with contextlib.redirect_stdout(io.StringIO()):
                Er = np.array(self.arm.FK(np.array(theta, dtype=float).copy()).gTM(), dtype=float)
            BP = self.bases[pre["b"]] @ rf.poe_space(np.eye(4), self.spec["S"], zoo.clamp(self.spec, theta))
            home_r = self.bases[pre["b"]] @ rf.trans_inv(BP) @ Er
            mats += [Er, rf.trans_inv(Er) @ N, home_r, home_r @ rf.trans_inv(Er) @ N]
            E = Er
        except Exception:
            pass
        for m in mats:
            if rf.rot_angle(m[:3, :3]) > PI - 1e-3:
                self.tainted = True
        # the same arithmetic drops a relative rotation below the library's 1e-6 'near zero' cut-off (known finding
        # exp_cutoff): asking for a tool pose that differs from the current one by such a rotation (typically right after
        # an IK that converged onto that very pose) loses up to 1e-6 rad
        if 0 < rf.rot_angle((rf.trans_inv(E) @ N)[:3, :3]) < 2e-6:
            self.cutoff = True

    def do_ik(self, i, rec):
        """goal: FK-reachable pose of an in-limit joint vector (computed by the oracle for the CURRENT
        base/tool, which the harness knows from the candidate states); start near / far."""
        from basic_robotics.general import tm
        arm = self.arm
        goal_theta = self.thetas[2] if rec["g"] == "reach2" else self.thetas[1]
        goal = self._cur_expected(goal_theta)
        if rec["g"] == "beyond":        # far outside the reachable sphere of the arm
            reach = float(np.sum(np.linalg.norm(np.diff(np.hstack([np.zeros((3, 1)), self.spec["M"][:3, 3:4]]), axis=1),
                                                axis=0))) + float(np.abs(self.spec["S"][3:]).max()) * 2 + 1.0
            goal = goal.copy()
            goal[:3, 3] = self.bases[self._cur_state["b"]][:3, 3] + np.array([1.0, 0.3, 0.2]) * (3 * reach + 10.0)
        if rec["s"] == "near":
            start = goal_theta + np.array([self.rng.uniform(-0.02, 0.02) for _ in range(self.n)]) / math.sqrt(self.n)
            start = zoo.clamp(self.spec, start)
        elif rec["s"] == "far":
            start = zoo.clamp(self.spec, goal_theta + np.array([self.rng.uniform(-1.5, 1.5) for _ in range(self.n)]))
        else:
            start = None
        random.seed(self.rng.randrange(1 << 30))
        path = rec["path"]
        if path == "constrained":
            th, ok = arm.IK(tm(goal.copy()), None if start is None else start.copy())
        elif path == "free":
            th, ok = arm.IK(tm(goal.copy()), None if start is None else start.copy(), protect=True)
        else:
            s0 = start if start is not None else zoo.clamp(self.spec, goal_theta + 0.01)
            th, ok = arm.IKFree(tm(goal.copy()), s0.copy(), free_indices(self.rng, self.n))
        self.ik_calls += 1
        self.ik_success += 1 if ok else 0
        self.ik_ret[i + 1] = np.asarray(th, dtype=float).reshape(-1).copy()
        return {"ok": bool(ok), "theta": self.ik_ret[i + 1], "goal": goal, "path": path, "start": rec["s"]}

    def _cur_expected(self, th):
        return self.expected_fk(self._cur_state, th)

    # ---------------------------------------------------------------- obligations
    def check_state(self, st, obs):
        """Evaluate the obligations of spec state st = {b, t, j} against the arm.  Returns None or
        (clause, expected, observed)."""
        arm = self.arm
        B = self.bases[st["b"]]
        # O4 base pose
        d = mdiff(arm.getBasePos().gTM(), B)
        if d > TOL:
            return ("O4_base_pose", B.tolist(), arm.getBasePos().gTM().tolist())
        jt = arm.getJointTransforms()
        b0 = B @ self.spec["base_offset"] if "base_offset" in self.spec else B
        if mdiff(jt[0].gTM(), b0) > TOL:
            return ("O4_joint_frames_start_at_base", b0.tolist(), jt[0].gTM().tolist())
        # O3 reported state is coherent: reported tool pose = FK(None) = pose implied by the stored joint vector
        ee = arm.getEEPos().gTM()
        with contextlib.redirect_stdout(io.StringIO()):
            fkn = arm.FK(None).gTM()
        if mdiff(ee, fkn) > TOL:
            return ("O3_FK(None)=getEEPos", ee.tolist(), fkn.tolist())
        # (a free-path solve may legitimately end outside the joint limits; every limit-aware query then clamps
        #  the stored vector, so the limit-aware obligations are not owed for that state)
        outside = obs["op"] == "IK" and obs.get("ok") and obs["path"] != "constrained" and \
            mdiff(zoo.clamp(self.spec, obs["theta"]), obs["theta"]) > 0
        if not outside and mdiff(jt[-1].gTM(), ee) > TOL:
            return ("O3_reported_pose=pose_of_stored_joint_state", jt[-1].gTM().tolist(), ee.tolist())
        j = tup(st["j"])
        if outside:
            self.truncated += 1
            self.stop = True
        elif j[0] == "known":
            th = self.theta_of(j[1])
            want = self.expected_fk(st, th)
            if mdiff(ee, want) > pose_tol(th, float(np.abs(want[:3, 3] - B[:3, 3]).max())):
                return ("O2/O3_state_is_base*PoE*tool", want.tolist(), ee.tolist())
            thc = zoo.clamp(self.spec, th)
            # O5 defaulted queries refer to the state
            if mdiff(arm.jacobian(), arm.jacobian(thc.copy())) > TOL:
                return ("O5_jacobian()_refers_to_state", None, None)
            if mdiff(arm.jacobianBody(), arm.jacobianBody(thc.copy())) > TOL:
                return ("O5_jacobianBody()_refers_to_state", None, None)
        # the call's own return value
        if obs["op"] == "FK":
            want = self.expected_fk(st, obs["theta"])
            if mdiff(obs["ret"], want) > TOL:
                return ("O1/O6_FK=base*PoE(clamp theta)*tool", want.tolist(), np.asarray(obs["ret"]).tolist())
        if obs["op"] == "IK" and obs["ok"]:
            # C07 is judged in its own check; here: the state is the returned solution
            pass
        if self.with_c06 and j[0] == "known":
            r = self.check_c06(st, self.theta_of(j[1]))
            if r:
                return r
        return None

    # ---------------------------------------------------------------- C06 obligations at a known state
    def check_c06(self, st, th):
        from basic_robotics.general import tm, Wrench
        arm, sp = self.arm, self.spec
        thc = zoo.clamp(sp, th)
        B = self.bases[st["b"]]
        Js = np.asarray(arm.jacobian(thc.copy()), dtype=float)
        scale = max(1.0, float(np.abs(Js).max()))
        # J1 by Richardson central differences of the code's own FK (restores the stored state afterwards)
        Jd = np.zeros((6, self.n))
        with contextlib.redirect_stdout(io.StringIO()):
            T0 = arm.FK(thc.copy()).gTM()
            Ti = rf.trans_inv(T0)
            for i in range(self.n):
                def dT(h):
                    a, b = thc.copy(), thc.copy()
                    a[i] += h
                    b[i] -= h
                    if a[i] > sp["maxs"][i] or b[i] < sp["mins"][i]:
                        return None
                    if 0 < abs(a[i]) < 2e-6 or 0 < abs(b[i]) < 2e-6:
                        return None         # a stencil point inside the library's 1e-6 'near zero' cut-off (known finding
                                            # exp_cutoff) says nothing about the Jacobian at theta: that column is skipped
                    return (arm.FK(a).gTM() - arm.FK(b).gTM()) / (2 * h)
                d1, d2 = dT(1e-3), dT(5e-4)
                if d1 is None or d2 is None:
                    Jd[:, i] = np.nan
                    continue
                D = (4 * d2 - d1) / 3
                Jd[:, i] = rf_se3_vee(D @ Ti)
            arm.FK(thc.copy())
        mask = ~np.isnan(Jd[0])
        if mask.any() and float(np.abs(Js[:, mask] - Jd[:, mask]).max()) / scale > 1e-6:
            return ("J1_space_jacobian=dFK/dtheta", Jd.tolist(), Js.tolist())
        # J2 body Jacobian = Ad(T^-1) J_s
        Jb = np.asarray(arm.jacobianBody(thc.copy()), dtype=float)
        want = rf.adjoint(Ti) @ Js
        if float(np.abs(Jb - want).max()) / scale > 1e-6:
            return ("J2_body_jacobian=Ad(inv T)*J_space", want.tolist(), Jb.tolist())
        # J3 frame-aligned variant and numerical variant
        Tal = np.eye(4)
        Tal[:3, 3] = T0[:3, 3]
        with contextlib.redirect_stdout(io.StringIO()):
            Je = np.asarray(arm.jacobianEETrans(thc.copy()), dtype=float)
            arm.FK(thc.copy())
        want = rf.adjoint(rf.trans_inv(Tal)) @ Js
        if float(np.abs(Je - want).max()) / scale > 1e-6:
            return ("J3_tool_aligned_jacobian", want.tolist(), Je.tolist())
        with contextlib.redirect_stdout(io.StringIO()):
            Jn = np.asarray(arm.numericalJacobian(thc.copy()), dtype=float)
            arm.FK(thc.copy())
        # numericalJacobian differentiates FK and right-multiplies by inv(T): it is the SPACE Jacobian
        # (central difference with step 5e-4: truncation error ~1e-7 * |J|, compared at 1e-5 relative)
        inner = (thc + 1e-3 < sp["maxs"]) & (thc - 1e-3 > sp["mins"])     # its stencil must stay inside the limits
        if inner.any() and float(np.abs(Jn[:, inner] - Js[:, inner]).max()) / scale > 1e-5:
            return ("J3_numerical_jacobian=space_jacobian", Js.tolist(), Jn.tolist())
        # S1 power balance, S2 round trip
        rng = self.rng
        qd = np.array([rng.uniform(-1, 1) for _ in range(self.n)])
        F = np.array([rng.uniform(-10, 10) for _ in range(6)]).reshape((6, 1))
        tau = np.asarray(arm.staticForces(Wrench(F.copy()), thc.copy()), dtype=float).reshape(-1)
        V = np.asarray(arm.velocityAtEndEffector(qd.copy(), thc.copy()), dtype=float).reshape(-1)
        p1, p2 = float(tau @ qd), float(F.reshape(-1) @ V)
        if abs(p1 - p2) > 1e-8 * max(1.0, abs(p1), abs(p2)) * 10:
            return ("S1_torque.rate=wrench.twist", p2, p1)
        if self.n >= 6 and np.linalg.svd(Js, compute_uv=False)[-1] > 0.05:
            Fb = arm.staticForcesInv(tau.copy(), thc.copy())
            Fb = np.asarray(Fb.getData() if hasattr(Fb, "getData") else Fb, dtype=float).reshape(-1)
            if float(np.abs(Fb - F.reshape(-1)).max()) > 1e-6 * max(1.0, float(np.abs(F).max())):
                return ("S2_staticForcesInv(staticForces(F))=F", F.reshape(-1).tolist(), Fb.tolist())
        # J5: with the joint vector left out, the same queries answer for the stored state (which is thc here)
        with contextlib.redirect_stdout(io.StringIO()):
            arm.FK(thc.copy())
            dflt = [("jacobianEETrans", Je, np.asarray(arm.jacobianEETrans(), dtype=float))]
            arm.FK(thc.copy())
            dflt.append(("staticForces", tau, np.asarray(arm.staticForces(Wrench(F.copy())), dtype=float).reshape(-1)))
            dflt.append(("velocityAtEndEffector", V, np.asarray(arm.velocityAtEndEffector(qd.copy()), dtype=float).reshape(-1)))
        for name, explicit, default in dflt:
            if float(np.abs(np.asarray(explicit) - default).max()) > 1e-9 * max(1.0, float(np.abs(explicit).max())):
                return ("J5_%s()_refers_to_the_stored_state" % name, np.asarray(explicit).tolist(), default.tolist())
        # J4/S4: a query with an explicit joint vector answers for that vector whatever state the arm is in: repeat the
        # queries with the arm parked at a different joint vector
        other = zoo.clamp(sp, np.array([rng.uniform(lo, hi) for lo, hi in zip(np.maximum(sp["mins"], -PI), np.minimum(sp["maxs"], PI))]))
        with contextlib.redirect_stdout(io.StringIO()):
            arm.FK(other.copy())
            again = [("jacobian", Js, np.asarray(arm.jacobian(thc.copy()), dtype=float))]
            arm.FK(other.copy())
            again.append(("jacobianBody", Jb, np.asarray(arm.jacobianBody(thc.copy()), dtype=float)))
            arm.FK(other.copy())
            again.append(("jacobianEETrans", Je, np.asarray(arm.jacobianEETrans(thc.copy()), dtype=float)))
            arm.FK(other.copy())
            again.append(("staticForces", tau, np.asarray(arm.staticForces(Wrench(F.copy()), thc.copy()), dtype=float).reshape(-1)))
            arm.FK(other.copy())
            again.append(("velocityAtEndEffector", V, np.asarray(arm.velocityAtEndEffector(qd.copy(), thc.copy()), dtype=float).reshape(-1)))
        for name, at_state, parked in again:
            if float(np.abs(np.asarray(at_state) - parked).max()) > 1e-9 * max(1.0, float(np.abs(at_state).max())):
                return ("J4_%s(theta)_independent_of_the_stored_state" % name, np.asarray(at_state).tolist(), parked.tolist())
        with contextlib.redirect_stdout(io.StringIO()):
            arm.FK(thc.copy())
        return None

    # ---------------------------------------------------------------- running a group of behaviours
    def run_group(self, group):
        """group: behaviours with one op sequence (they differ in spec non-determinism).  Returns None
        or (step, clause, expected, observed, ops)."""
        cands = list(group)
        ops = group[0]
        for i, rec in enumerate(ops):
            pre = cands[0][i - 1]["st"] if i > 0 else {"b": 0, "t": ["orig"], "j": ["known", ["zero"]]}
            self._cur_state = pre
            try:
                obs = self.execute(i, rec)
            except Exception as e:
                return (i, "raises", None, "%s: %s" % (type(e).__name__, e), [dict(r, st=None) for r in ops[:i + 1]])
            if rec["op"] == "IK":
                if rec["g"] == "beyond" and obs["ok"]:
                    return (i, "C07_unreachable_goal_reported_reached", False, True,
                            [{k: v for k, v in r.items() if k != "st"} for r in ops[:i + 1]])
                cands = [c for c in cands if bool(c[i]["ok"]) == obs["ok"]]
                if not cands:
                    self.truncated += 1      # the implementation chose the other (allowed) outcome: no recorded
                    return None              # continuation for it (simulated behaviours); the prefix was checked
            seen, nxt, first_fail = set(), [], None
            for c in cands:
                key = repr(c[i]["st"])
                if key in seen:
                    nxt.append(c)
                    continue
                try:
                    r = self.check_state(c[i]["st"], obs)
                except Exception as e:
                    r = ("raises_in_query", None, "%s: %s" % (type(e).__name__, e))
                if r is None:
                    seen.add(key)
                    nxt.append(c)
                elif first_fail is None or _dev(r) < _dev(first_fail):
                    first_fail = r          # of the candidate states, show the one the arm came closest to
            nxt = [c for c in nxt if repr(c[i]["st"]) in seen]
            if not nxt and rec["op"] == "move":
                # the spec lets a move keep or revert a custom tool; if only the other branch was recorded
                # (simulated behaviours) try it before calling this a violation
                alt = dict(cands[0][i]["st"])
                alt["t"] = ["orig"] if tup(alt["t"]) != ("orig",) else (ops[i - 1]["st"]["t"] if i > 0 else ["orig"])
                try:
                    if self.check_state(alt, obs) is None:
                        self.truncated += 1
                        return None
                except Exception:
                    pass
            if not nxt:
                tiny = self.cutoff or any(np.any((np.abs(v) > 0) & (np.abs(v) < 1e-6))
                                          for v in list(self.ik_ret.values()) + [zoo.clamp(self.spec, t) for t in self.thetas.values()])
                return (i, first_fail[0] + ("|log_near_pi" if self.tainted else "|exp_cutoff" if tiny else ""),
                        first_fail[1], first_fail[2],
                        [{k: v for k, v in r.items() if k != "st"} for r in ops[:i + 1]])
            cands = nxt
            if self.stop:
                return None
        return None


def rf_se3_vee(m):
    return np.array([m[2, 1], m[0, 2], m[1, 0], m[0, 3], m[1, 3], m[2, 3]])


def expand_keep(h, cap=8):
    """The spec lets every base move keep or revert a custom tool (tool' \\in {tool, orig}).  A simulated
    behaviour records one choice per move; the other choices are behaviours of the spec too and differ only
    in the tool component of the following states, which is rewritten here (the one spec rule mirrored in
    the harness: tool' = IF keep THEN tool ELSE orig; setArbitraryHome / restoreOriginalEE overwrite it)."""
    variants = [([], ["orig"])]
    for r in h:
        nxt = []
        for steps, tool in variants:
            if r["op"] in ("setArbitraryHome", "restoreOriginalEE"):
                choices = [r["st"]["t"]]
            elif r["op"] == "move" and tup(tool) != ("orig",):
                choices = [tool, ["orig"]]
            else:
                choices = [tool]
            for t in choices:
                r2 = dict(r)
                r2["st"] = dict(r["st"], t=t)
                nxt.append((steps + [r2], t))
        variants = nxt[:cap]
    return [v[0] for v in variants]


def group_behaviours(js):
    groups = {}
    for b in js:
        h = b["h"]
        key = tuple(tuple(sorted((k, repr(v)) for k, v in r.items() if k not in ("st", "ok", "keep"))) for r in h)
        groups.setdefault(key, []).extend(expand_keep(h))
    return groups


def known_probes(ctx):
    """Deterministic reproductions of the two known findings of the arm layer, so that every run reports them
    (KNOWN-FINDING lines) from fixed inputs; a probe that no longer fails is reported as such in the evidence."""
    from basic_robotics.general import tm
    out = {}
    spec = zoo.spec_6r()
    # exp_cutoff: a joint angle in (0, 1e-6) is applied without its rotation
    arm = zoo.build(spec, np.eye(4))
    th = np.array([0.4, -0.3, 0.5, 5e-7, 0.2, -0.6])
    with contextlib.redirect_stdout(io.StringIO()):
        got = arm.FK(th.copy()).gTM()
    want = zoo.fk_expected(spec, np.eye(4), spec["M"], th)
    dev = mdiff(got, want)
    out["exp_cutoff"] = dev
    if dev > TOL and "exp_cutoff" in ctx.known:
        ctx.violation("O1_FK=base*PoE*tool", {"probe": "exp_cutoff", "theta": th.tolist()}, expected=want.tolist(), observed=got.tolist(),
                      tags=["exp_cutoff"])
    # log_near_pi: setArbitraryHome when the requested tool pose is a rotation of pi - 2e-5 away from the current one
    arm = zoo.build(spec, np.eye(4))
    th = np.array([0.3, 0.2, -0.4, 0.5, 0.1, -0.2])
    E = zoo.fk_expected(spec, np.eye(4), spec["M"], th)
    ax = np.array([0.36, 0.48, 0.8])
    N = E @ rf.taa_to_tm([0.1, -0.2, 0.3] + list(ax * (PI - 2e-5)))
    with contextlib.redirect_stdout(io.StringIO()):
        arm.setArbitraryHome(tm(N.copy()), th.copy())
        got = arm.FK(th.copy()).gTM()
    dev = mdiff(got, N)
    out["log_near_pi"] = dev
    if dev > TOL and "log_near_pi" in ctx.known:
        ctx.violation("O2_tool_change", {"probe": "log_near_pi"}, expected=N.tolist(), observed=got.tolist(), tags=["log_near_pi"])
    ctx.cov["known_finding_probe_deviation"] = out
    return out
