"""C12 - wrenches and screws change frame as a group action and add as vectors.

spec/ScrewWrench.tla (over QSE3): TLC explores operation histories on two Screw/Wrench objects,
checks the group-action, power-invariance, equivariance and vector-space laws exactly on every
reachable object for every palette frame, and exports the histories with their exact results;
each is replayed on the real classes.  Random float frames as a law trace (LawTrace.tla).
"""
import math
import random

import numpy as np

from vf import tlc, refeval as rf
from vf.law import LawLog
from vf.par import pmap
from vf.adapters.c01 import tf_mat

LEVEL = "model_checking"
PI = math.pi
FRAMES = [
    {"q": [1, 0, 0, 0], "p": [0, 0, 0], "d": 1}, {"q": [1, 1, 0, 0], "p": [1, -2, 3], "d": 1},
    {"q": [1, 1, 1, 1], "p": [0, 4, -1], "d": 1}, {"q": [2, 1, 0, -1], "p": [-5, 1, 2], "d": 2},
    {"q": [2, 0, -2, 1], "p": [0, 0, 1], "d": 1}, {"q": [3, -1, 1, 0], "p": [1, 1, 1], "d": 1}]
VECS = [[0, 0, 1, 0, 0, 0], [1, -2, 0, 3, 0, -1], [0, 0, 0, 1, 2, 3]]
PTS = [[1, 2, 3], [0, -1, 2]]
INV = ["NormDen", "RoundTrip", "Functorial", "RecordsFrame", "PowerInvariant", "SumEquivariant", "ScaleLaws", "MomentLaw",
       "PaletteOK"]


def cfg(fr, vs, depth, mode, start="zero", ops="AllOps"):
    s = ("SPECIFICATION Spec\nCONSTANTS\n  Frames <- %s\n  Vecs <- %s\n  Pts <- P2\n  Ks <- K2\n  Ops <- %s\n"
         "  Start = \"%s\"\n  MaxDepth = %d\n" % (fr, vs, ops, start, depth))
    if mode == "mc":
        s += "VIEW View\n" + "".join("INVARIANT %s\n" % i for i in INV)
    else:
        s += "INVARIANT Dump\n"
    return s


def frame_tm(i):
    from basic_robotics.general import tm
    return tm(tf_mat(FRAMES[i - 1]))


def start_objs(start):
    from basic_robotics.general import Screw, Wrench, tm, fsr
    z = lambda: Screw()
    if start == "zero":
        return {1: Screw(), 2: Screw()}
    v = lambda i: np.array(VECS[i - 1], dtype=float).reshape((6, 1))
    if start == "ws":
        return {1: Wrench(v(2), None, frame_tm(2)), 2: Screw(v(1), frame_tm(3))}
    if start == "ww":
        return {1: fsr.makeWrench(tm(PTS[0] + [0, 0, 0]), 1.0, PTS[1], frame_tm(3)), 2: Wrench(v(2), None, frame_tm(4))}
    if start == "ss":
        return {1: Screw(v(2), frame_tm(4)), 2: Screw(v(1), frame_tm(2))}
    raise ValueError(start)


def apply(objs, st):
    from basic_robotics.general import Screw, Wrench, tm, fsr
    t = st["t"]
    a, b = objs[t], objs[3 - t]
    op = st["op"]
    if op == "new":
        v = np.array(VECS[st["vi"] - 1], dtype=float)
        v = v.reshape((6, 1)) if st["shape"] == "col" else v
        objs[t] = Screw(v, frame_tm(st["f"])) if st["kind"] == "screw" else Wrench(v, None, frame_tm(st["f"]))
    elif op == "makeWrench":
        objs[t] = fsr.makeWrench(tm(PTS[st["pi"] - 1] + [0, 0, 0]), 1.0, PTS[st["fi"] - 1], frame_tm(st["f"]))
    elif op == "changeFrame":
        new = frame_tm(st["f"])
        if st["how"] == "implicit":
            r = a.changeFrame(new)
        elif st["how"] == "explicit":
            r = a.changeFrame(new, a.frame_applied.copy())
        else:
            r = fsr.transformWrenchFrame(a, a.frame_applied.copy(), new)
        objs[t] = r
    elif op == "changeFrameFrom":
        new, old = frame_tm(st["f"]), frame_tm(st["old"])
        objs[t] = a.changeFrame(new, old) if st["how"] == "method" else fsr.transformWrenchFrame(a, old, new)
    elif op == "addsub":
        objs[t] = (a + b) if st["sg"] == 1 else (a - b)
    elif op == "vecop":
        v = np.array(VECS[st["vi"] - 1], dtype=float)
        v = v.reshape((6, 1)) if st["shape"] == "col" else v
        w = st["w"]
        objs[t] = a + v if w == "add" else (v + a if w == "radd" else (a - v if w == "sub" else v - a))
    elif op == "scalop":
        s = float(st["s"])
        w = st["w"]
        objs[t] = a + s if w == "add" else (s + a if w == "radd" else (a - s if w == "sub" else s - a))
    elif op == "muldiv":
        k = float(st["k"])
        w = st["w"]
        objs[t] = a * k if w == "mul" else (k * a if w == "rmul" else a / k)
    elif op == "copy":
        objs[t] = b.copy()
    else:
        raise ValueError(op)


def check_history(job):
    beh, start = job
    objs = start_objs(start)
    h = beh["h"]
    for i, st in enumerate(h):
        try:
            apply(objs, st)
        except Exception as e:
            return ("raises", i, "%s: %s" % (type(e).__name__, e), None)
    for slot in (1, 2):
        exp = beh["s"][slot - 1]
        o = objs[slot]
        want = np.array(exp["v"], dtype=float) / exp["den"]
        if exp["kind"] == "array":
            got = np.asarray(o.getData() if hasattr(o, "getData") else o, dtype=float)
        else:
            if not hasattr(o, "getData"):
                return ("result_is_object", len(h) - 1, type(o).__name__, exp["kind"])
            got = np.asarray(o.getData(), dtype=float)
            F = tf_mat(FRAMES[exp["f"] - 1])
            if np.abs(o.frame_applied.gTM() - F).max() > 1e-8:
                return ("records_frame", len(h) - 1, o.frame_applied.gTM().tolist(), F.tolist())
            if exp["kind"] == "wrench" and hasattr(o, "getMoment"):
                if np.abs(o.getMoment().reshape(3) - want[:3]).max() > 1e-8 * max(1, np.abs(want).max()) or \
                        np.abs(o.getForce().reshape(3) - want[3:]).max() > 1e-8 * max(1, np.abs(want).max()):
                    return ("force_moment_accessors", len(h) - 1, None, want.tolist())
        if got.size != 6 or np.abs(got.reshape(6) - want).max() > 1e-8 * max(1.0, np.abs(want).max()):
            return ("data_value", len(h) - 1, got.reshape(-1).tolist(), want.tolist())
    return None


def check_chunk(chunk):
    out = []
    for job in chunk:
        try:
            v = check_history(job)
        except Exception as e:
            v = ("HARNESS", 0, "%s: %s" % (type(e).__name__, e), None)
        if v:
            out.append((job[0], job[1], v))
    return out


def unit(rng):
    v = np.array([rng.gauss(0, 1) for _ in range(3)])
    return v / np.linalg.norm(v)


def float_part(L, rng, n):
    from basic_robotics.general import Screw, Wrench, tm, fsr

    def frame():
        ax = np.array([rng.gauss(0, 1) for _ in range(3)])
        ax /= np.linalg.norm(ax)
        th = rng.uniform(0, PI - 1e-3)
        p = [rng.uniform(-10, 10) / math.sqrt(3) for _ in range(3)]
        return rf.taa_to_tm(p + list(ax * th))
    for it in range(n):
        A, B, C = frame(), frame(), frame()
        reg = "float"
        if it % 5 == 4:
            # frames that are distinct but close (an origin 1e-7..1e-3 away, optionally turned by 1e-5..1e-3 rad - above the
            # library's 1e-6 cut-off): "the same frame" must not be decided by a loose comparison
            dp = unit(rng) * 10 ** rng.uniform(-7, -3)
            dr = unit(rng) * (10 ** rng.uniform(-5, -3) if rng.random() < 0.5 else 0.0)
            B = A @ rf.taa_to_tm(list(dp) + list(dr))
            reg = "float|close-frames"
        v = np.array([rng.uniform(-5, 5) for _ in range(6)])
        u = np.array([rng.uniform(-5, 5) for _ in range(6)])
        case = {"A": A.tolist(), "B": B.tolist(), "C": C.tolist(), "v": v.tolist(), "u": u.tolist()}
        # known finding log_near_pi: changeFrame goes through the logarithm of the relative pose of the two frames; when that
        # relative rotation is within 1e-3 of a half turn its error (2e-15/(pi-angle)^2) exceeds the 1e-8 of C12
        kn = "log_near_pi" if any(rf.rot_angle((rf.trans_inv(X) @ Y)[:3, :3]) > PI - 1e-3 for X, Y in ((A, B), (B, C), (A, C))) else ""
        sc = lambda x: max(1.0, float(np.abs(x).max()))
        for kind, cls in (("screw", Screw), ("wrench", Wrench)):
            mk = (lambda d, F: Screw(d.reshape((6, 1)).copy(), tm(F.copy()))) if kind == "screw" else \
                 (lambda d, F: Wrench(d.reshape((6, 1)).copy(), None, tm(F.copy())))
            TBA = rf.trans_inv(B) @ A
            want = rf.adjoint(TBA) @ v if kind == "screw" else rf.adjoint(rf.trans_inv(A) @ B).T @ v
            o = mk(v, A).changeFrame(tm(B.copy()))
            L.log(kind + ":A->B=Ad", reg, float(np.abs(o.getData().reshape(6) - want).max()) / sc(want), 1e-8, case, kn)
            L.log(kind + ":records frame", reg, float(np.abs(o.frame_applied.gTM() - B).max()), 1e-8, case, kn)
            back = mk(v, A).changeFrame(tm(B.copy())).changeFrame(tm(A.copy()))
            L.log(kind + ":A->B->A", reg, float(np.abs(back.getData().reshape(6) - v).max()) / sc(want), 1e-8, case, kn)
            two = mk(v, A).changeFrame(tm(B.copy())).changeFrame(tm(C.copy()))
            one = mk(v, A).changeFrame(tm(C.copy()))
            L.log(kind + ":A->B->C=A->C", reg, float(np.abs(two.getData() - one.getData()).max()) / sc(one.getData()), 1e-8, case, kn)
            # sums across frames
            s1 = mk(v, A) + mk(u, B)
            ub = mk(u, B).changeFrame(tm(A.copy())).getData().reshape(6)
            L.log(kind + ":sum across frames", reg, float(np.abs(s1.getData().reshape(6) - (v + ub)).max()) / sc(v + ub), 1e-8, case, kn)
            d1 = mk(v, A) - mk(u, B)
            L.log(kind + ":difference across frames", reg, float(np.abs(d1.getData().reshape(6) - (v - ub)).max()) / sc(v - ub),
                  1e-8, case, kn)
            L.log(kind + ":(a+b)-b=a", reg, float(np.abs(((mk(v, A) + mk(u, B)) - mk(u, B)).getData().reshape(6) - v).max())
                  / sc(v + ub), 1e-8, case, kn)
            k = rng.choice([-3.5, 0.25, 2.0, 7])
            s = rng.uniform(-4, 4)
            a = mk(v, A)
            L.log(kind + ":(k*a)/k=a", reg, float(np.abs(np.asarray(((a * k) / k).getData()).reshape(6) - v).max()), 1e-8 * sc(v), case, kn)
            L.log(kind + ":a-s=a+(-s)", reg, float(np.abs(np.asarray(_data(a - s)) - np.asarray(_data(a + (-s)))).max()), 1e-8 * sc(v), case, kn)
            L.log(kind + ":s-a=-(a-s)", reg, float(np.abs(np.asarray(_data(s - a)) + np.asarray(_data(a - s))).max()), 1e-8 * sc(v), case, kn)
            L.log(kind + ":a-arr=a+(-arr)", reg, float(np.abs(_data(a - u) - _data(a + (-u))).max()), 1e-8 * sc(v), case, kn)
            L.log(kind + ":arr-a=-(a-arr)", reg, float(np.abs(_data(u.reshape((6, 1)) - a) + _data(a - u.reshape((6, 1)))).max()),
                  1e-8 * sc(v), case, kn)
        # power invariance
        w, s_ = Wrench(v.reshape((6, 1)).copy(), None, tm(A.copy())), Screw(u.reshape((6, 1)).copy(), tm(A.copy()))
        p0 = float(v @ u)
        w.changeFrame(tm(B.copy()))
        s_.changeFrame(tm(B.copy()))
        p1 = float(w.getData().reshape(6) @ s_.getData().reshape(6))
        L.log("power invariant", reg, abs(p1 - p0) / max(1.0, abs(p0), float(np.abs(w.getData()).max() * np.abs(s_.getData()).max())),
              1e-8, case, kn)
        # force at a point
        pt = np.array([rng.uniform(-3, 3) for _ in range(3)])
        f = np.array([rng.uniform(-5, 5) for _ in range(3)])
        mw = fsr.makeWrench(tm(list(pt) + [0, 0, 0]), 1.0, list(f), tm(A.copy()))
        L.log("moment=p x f", reg, float(np.abs(mw.getMoment().reshape(3) - np.cross(pt, f)).max()) / sc(np.cross(pt, f)), 1e-8, case, kn)
        G = A.copy()
        G[:3, 3] = A[:3, 3] + A[:3, :3] @ pt
        mw.changeFrame(tm(G))
        L.log("zero moment at application point", reg, float(np.abs(mw.getMoment()).max()) / sc(np.cross(pt, f)), 1e-8, case, kn)
        L.log("force unchanged at application point", reg, float(np.abs(mw.getForce().reshape(3) - f).max()) / sc(f), 1e-8, case, kn)
    for law in ("screw:A->B=Ad", "wrench:A->B=Ad", "screw:A->B->C=A->C", "wrench:A->B->C=A->C", "power invariant",
                "zero moment at application point", "wrench:sum across frames", "screw:s-a=-(a-s)", "wrench:a-s=a+(-s)"):
        L.require(law, "float", n // 2)
    for law in ("screw:difference across frames", "wrench:difference across frames", "wrench:sum across frames", "screw:(a+b)-b=a"):
        L.require(law, "float|close-frames", max(3, n // 10))


def known_probe(L):
    """Deterministic reproduction of log_near_pi for frame changes: B is A turned by pi - 1e-4 about a generic axis, so the
    relative rotation the library takes the logarithm of is 1e-4 from a half turn."""
    from basic_robotics.general import Screw, tm
    A = rf.taa_to_tm([1.0, -2.0, 0.5, 0.2, -0.1, 0.3])
    B = A @ rf.taa_to_tm([0.3, 0.1, -0.2] + list(np.array([0.36, 0.48, 0.8]) * (PI - 1e-4)))
    v = np.array([1.0, -2.0, 3.0, 0.5, 4.0, -1.5])
    want = rf.adjoint(rf.trans_inv(B) @ A) @ v
    o = Screw(v.reshape((6, 1)).copy(), tm(A.copy())).changeFrame(tm(B.copy()))
    L.log("screw:A->B=Ad", "probe", float(np.abs(o.getData().reshape(6) - want).max()) / max(1.0, float(np.abs(want).max())), 1e-8,
          {"probe": "log_near_pi", "A": A.tolist(), "B": B.tolist(), "v": v.tolist()}, "log_near_pi")


def _data(x):
    return np.asarray(x.getData() if hasattr(x, "getData") else x, dtype=float).reshape(6)


def run(ctx):
    rng = random.Random(ctx.seed + 12)
    import basic_robotics.general  # noqa: F401
    with ctx.timed("model"):
        r = tlc.run("ScrewWrenchMC", cfg_text=cfg("F4", "V2", ctx.pick(2, 3), "mc"), timeout=6000, heap="8g")
        ctx.add_tlc("laws on reachable objects", r)
        if not r.ok:
            ctx.model_violation("ScrewWrench", r)
        r = tlc.run("ScrewWrenchMC", cfg_text=cfg("F6", "V3", 1, "mc", "ws"), timeout=6000, heap="8g")
        ctx.add_tlc("laws, 6 frames", r)
        if not r.ok:
            ctx.model_violation("ScrewWrench F6", r)
    plans = [("depth1-zero", cfg("F6", "V3", 1, "gen"), "zero"), ("depth2-zero", cfg("F4", "V2", 2, "gen"), "zero"),
             ("depth2-ws", cfg("F4", "V2", 2, "gen", "ws", "CoreOps"), "ws"),
             ("depth2-ww", cfg("F4", "V2", 2, "gen", "ww", "CoreOps"), "ww"),
             ("depth2-ss", cfg("F4", "V2", 2, "gen", "ss", "CoreOps"), "ss")]
    if not ctx.quick:
        plans += [("depth3-ws", cfg("F4", "V2", 3, "gen", "ws", "CoreOps"), "ws"),
                  ("depth3-ww", cfg("F4", "V2", 3, "gen", "ww", "CoreOps"), "ww")]
    total = nontriv = 0
    for name, c, start in plans:
        with ctx.timed("gen-" + name):
            g = tlc.run("ScrewWrenchMC", cfg_text=c, timeout=6000, heap="10g")
        ctx.add_tlc("gen-" + name, g)
        if g.errors:
            ctx.model_violation("generation " + name, g)
        behs = g.json
        if not behs:
            ctx.machinery("no histories exported by " + name)
        total += len(behs)
        nontriv += sum(1 for b in behs if any(st["op"] in ("changeFrame", "changeFrameFrom", "addsub") for st in b["h"]))
        jobs = [(b, start) for b in behs]
        chunks = [jobs[i:i + 500] for i in range(0, len(jobs), 500)]
        with ctx.timed("replay-" + name):
            res = pmap(check_chunk, chunks)
        for out in res:
            for beh, st, (clause, step, obs, exp) in out:
                if clause == "HARNESS":
                    ctx.machinery("harness failure on %s: %s" % (beh["h"], obs))
                tags = []
                last = beh["h"][step] if step < len(beh["h"]) else {}
                ctx.violation(clause, {"start": st, "history": beh["h"], "spec_state": beh["s"], "step": step},
                              expected=exp, observed=obs, tags=tags)
        ctx.sample({"plan": name, "history": behs[len(behs) // 2]["h"], "exact_result": behs[len(behs) // 2]["s"]}, cap=3)
    L = LawLog()
    with ctx.timed("float"):
        float_part(L, rng, ctx.pick(400, 50000))
    known_probe(L)
    with ctx.timed("lawtrace"):
        L.decide(ctx, known_tags=["log_near_pi"], tag="c12")
    return ctx.finish({
        "traces_validated_against_impl": total, "evaluations": total + len(L.events), "histories_replayed": total,
        "float_law_events": len(L.events), "distinct_nontrivial": nontriv,
        "rule": "TLC enumerates every history over the operator alphabet to the stated depth from four starting "
                "configurations; non-trivial = contains a frame change or an object-object sum/difference",
        "exhaustive": True,
    }, assumptions=["frames of the palette are exact (integer quaternion + rational translation), relative rotations "
                    "stay away from half turns (lemma PaletteOK checked by TLC)", "values compared to 1e-8 relative"])


def replay(ctx, rep):
    c = rep["case"]
    v = check_history(({"h": c["history"], "s": c["spec_state"]}, c["start"]))
    print("history:", c["history"], "->", v)
    if v:
        print("VIOLATION property=C12 replay=(replayed)")
        return 1
    return 0
