"""C15 - the planner's obstruction test equals exact segment-versus-box intersection.

spec/SegBox.tla holds the definition (Hits), a transcription of the code's six-axis test (SAT)
and an exact slab procedure (HitsSlab).  TLC checks SAT = Hits = HitsSlab on the lattice and,
reading a verdict table recorded from the real RRTStar.obstruction, Table = Hits for every
lattice segment against every chosen box set.  spec/SegBoxTrace.tla decides random 3-decimal
cases with the slab oracle.
"""
import itertools
import json
import random
import re

from vf import tlc
from vf.par import pmap

LEVEL = "model_checking"
R = 3
PTS = list(itertools.product(range(-R, R + 1), repeat=3))

CORE_BOXES = [
    [[-1, -1, -1], [1, 1, 1]],     # cube around the origin
    [[0, 0, 0], [0, 0, 0]],        # a point
    [[-2, 0, 1], [2, 0, 2]],       # plate (degenerate in y)
    [[1, -2, -2], [1, 2, -2]],     # rod (degenerate in x and z)
    [[-2, -2, -2], [2, 2, 2]],     # the whole box range
    [[1, 1, 1], [2, 2, 2]],        # off-centre cube
    [[-2, -1, 0], [-1, 2, 0]],     # off-centre plate
    [[0, -2, -1], [0, -2, 2]],     # off-centre rod
]


def all_boxes():
    ax = [(lo, hi) for lo in range(-2, 3) for hi in range(lo, 3)]
    return [[[x[0], y[0], z[0]], [x[1], y[1], z[1]]] for x in ax for y in ax for z in ax]


_NODES = None


def nodes():
    global _NODES
    if _NODES is None:
        from basic_robotics.path_planning.pathplanner import PathNode
        from basic_robotics.general import tm
        _NODES = [PathNode(tm([x, y, z, 0, 0, 0])) for x, y, z in PTS]
    return _NODES


def verdict_rows(job):
    """job = (box set, a-index range) -> rows of 0/1 for every b (the real code is called here)."""
    boxes, lo, hi = job
    from basic_robotics.path_planning.pathplanner import RRTStar
    from basic_robotics.general import tm
    rrt = RRTStar(tm())
    for b in boxes:
        rrt.addObstruction(list(b[0]), list(b[1]))
    ns = nodes()
    out = []
    for i in range(lo, hi):
        row = []
        for nb in ns:
            v = rrt.obstruction(ns[i], nb)
            row.append(1 if v is True or v == True else 0)  # noqa: E712 (numpy bools)
        out.append(row)
    return out


def build_table(sets):
    n = len(PTS)
    step = 49
    jobs = [(s, lo, min(lo + step, n)) for s in sets for lo in range(0, n, step)]
    res = pmap(verdict_rows, jobs)
    per = n // step + (1 if n % step else 0)
    tab = []
    for k in range(len(sets)):
        rows = []
        for r in res[k * per:(k + 1) * per]:
            rows.extend(r)
        tab.append(rows)
    return tab


def float_case(rng):
    """A random segment and 1..3 boxes on the 1/1000 grid of [-10,10]^3 (scaled integers)."""
    pool = [rng.randint(-10000, 10000) for _ in range(6)]

    def coord():
        return rng.choice(pool) if rng.random() < 0.35 else rng.randint(-10000, 10000)

    def box():
        lo, hi = [], []
        for _ in range(3):
            u, v = coord(), coord()
            if rng.random() < 0.1:
                v = u
            lo.append(min(u, v))
            hi.append(max(u, v))
        return [lo, hi]
    a = [coord() for _ in range(3)]
    kind = rng.random()
    if kind < 0.1:
        b = list(a)
    elif kind < 0.3:
        b = list(a)
        b[rng.randrange(3)] = coord()
    else:
        b = [coord() for _ in range(3)]
    return {"a": a, "b": b, "boxes": [box() for _ in range(rng.randint(1, 3))]}


def float_verdicts(cases):
    from basic_robotics.path_planning.pathplanner import RRTStar, PathNode
    from basic_robotics.general import tm
    out = []
    for c in cases:
        rrt = RRTStar(tm())
        for b in c["boxes"]:
            rrt.addObstruction([x / 1000.0 for x in b[0]], [x / 1000.0 for x in b[1]])
        na = PathNode(tm([x / 1000.0 for x in c["a"]] + [0, 0, 0]))
        nb = PathNode(tm([x / 1000.0 for x in c["b"]] + [0, 0, 0]))
        out.append(1 if rrt.obstruction(na, nb) else 0)
    return out


def run(ctx):
    rng = random.Random(ctx.seed + 15)
    boxes = all_boxes()
    # ---- box sets for the table: single boxes (core shapes + random), the empty set, pairs, triples
    n_single = ctx.pick(8, 120)
    n_multi = ctx.pick(5, 40)
    singles = CORE_BOXES + rng.sample(boxes, n_single)
    sets = [[b] for b in singles] + [[]]
    for _ in range(n_multi):
        sets.append(rng.sample(boxes, rng.choice([2, 3])))
    with ctx.timed("impl-table"):
        tab = build_table(sets)
    calls = len(sets) * len(PTS) ** 2
    path = tlc.write_json({"sets": sets, "tab": tab, "hasTab": 1}, "c15-table")
    with ctx.timed("tlc-lattice"):
        r = tlc.run("SegBox", cfg_text="SPECIFICATION Spec\nCONSTANTS\n  R = 3\n  K = 60\nINVARIANT Exact\n",
                    env={"TABLE_FILE": path}, timeout=7000, heap="6g")
    ctx.add_tlc("lattice: table = Hits = SAT = Slab", r)
    if r.violated:
        diagnose(ctx, sets, path, r)
    elif r.errors:
        ctx.machinery("TLC error:\n" + r.counterexample())
    # ---- thorough only: the algorithm against the definition for ALL 3375 boxes (no table)
    if not ctx.quick:
        with ctx.timed("tlc-all-boxes"):
            chunk = 225
            for k in range(0, len(boxes), chunk):
                p2 = tlc.write_json({"sets": [[b] for b in boxes[k:k + chunk]], "tab": [], "hasTab": 0}, "c15-all")
                r2 = tlc.run("SegBox", cfg_text="SPECIFICATION Spec\nCONSTANTS\n  R = 3\n  K = 60\nINVARIANT Exact\n",
                             env={"TABLE_FILE": p2}, timeout=7000, heap="6g")
                ctx.add_tlc("all-boxes-%d" % k, r2)
                if not r2.ok:
                    ctx.model_violation("SAT = Hits on all boxes", r2)
    # ---- random 3-decimal cases decided by TLC with the slab oracle
    n_float = ctx.pick(20000, 400000)
    cases = [float_case(rng) for _ in range(n_float)]
    with ctx.timed("impl-float"):
        chunks = [cases[i:i + 2000] for i in range(0, len(cases), 2000)]
        vs = pmap(float_verdicts, chunks)
    k = 0
    for ch, v in zip(chunks, vs):
        for c, x in zip(ch, v):
            c["v"] = x
            k += 1
    robust = hit = 0
    with ctx.timed("tlc-float"):
        for i in range(0, len(cases), 50000):
            part = cases[i:i + 50000]
            p3 = tlc.write_json(part, "c15-float")
            r3 = tlc.run("SegBoxTrace", cfg_text="SPECIFICATION TSpec\nCONSTANTS\n  R = 3\n  K = 60\n"
                         "INVARIANT Report\nINVARIANT ReportBad\n", env={"CASE_FILE": p3, "TABLE_FILE": path},
                         timeout=3000, workers=1, heap="6g")
            ctx.add_tlc("float-cases-%d" % i, r3)
            if r3.errors:
                ctx.machinery("TLC error on float cases:\n" + r3.counterexample())
            for m in re.finditer(r'<<"ROBUST", (\d+), (\d+), (\d+)>>', r3.out):
                robust += int(m.group(2))
                hit += int(m.group(3))
            groups_seen = len(re.findall(r'<<"ROBUST", ', r3.out))
            if groups_seen != 64:
                ctx.machinery("SegBoxTrace reported %d of 64 groups" % groups_seen)
            for jb in r3.json:
                if jb.get("k") == "BAD":
                    for j in jb["s"]:
                        c = part[int(j) - 1]
                        ctx.violation("float_case", {"kind": "float", "case": c}, expected=1 - c["v"], observed=c["v"])
    if robust < n_float // 3 or hit < n_float // 50:
        ctx.machinery("float cases degenerate: %d robust, %d of them hits out of %d" % (robust, hit, n_float))
    ctx.sample({"box_set": sets[len(singles) + 1], "segment": [list(PTS[10]), list(PTS[300])],
                "impl_verdict": tab[len(singles) + 1][10][300]})
    ctx.sample({"float_case_scaled_by_1000": cases[0]})
    ones = sum(sum(map(sum, t)) for t in tab)
    return ctx.finish({
        "traces_validated_against_impl": len(sets) + n_float,
        "evaluations": calls + n_float, "impl_calls_lattice": calls, "lattice_verdict_obstructed": ones,
        "box_sets": len(sets), "distinct_nontrivial": len(sets) * (len(PTS) * (len(PTS) + 1) // 2) + robust,
        "float_cases": n_float, "float_cases_robust_and_decided": robust, "float_cases_robust_hits": hit,
        "rule": "lattice: every ordered segment of (-3..3)^3 against every chosen box set (distinct = unordered "
                "segment x box set, all non-trivial: each is decided by the definition); random: 3-decimal "
                "segments/boxes, counted only when the exact answer is unchanged by growing/shrinking every box by 1e-3",
        "exhaustive": True,
    }, assumptions=["on the lattice every quantity of the code's test is a multiple of 1/4 and exact in binary64",
                    "Hits uses parameters k/60, exact for coordinates in -3..3 (argument in SegBox.tla)"])


def diagnose(ctx, sets, path, r):
    """Exact was violated: find out which comparison failed on TLC's counterexample state."""
    m = re.findall(r"/\\ a = <<(-?\d+), (-?\d+), (-?\d+)>>", r.out)
    n = re.findall(r"/\\ b = <<(-?\d+), (-?\d+), (-?\d+)>>", r.out)
    if not (m and n):
        ctx.machinery("Exact violated but no counterexample state parsed:\n" + r.counterexample())
    a = [int(x) for x in m[-1]]
    b = [int(x) for x in n[-1]]
    for inv in ("SatIsExact", "SlabIsExact"):
        rr = tlc.run("SegBox", cfg_text="SPECIFICATION Spec\nCONSTANTS\n  R = 3\n  K = 60\nINVARIANT %s\n" % inv,
                     env={"TABLE_FILE": path}, timeout=7000, heap="6g")
        if rr.violated:
            ctx.model_violation("SegBox lemma " + inv, rr)
    # the model is consistent, so the table (the code) disagrees with the definition
    bad = first_bad_sets(sets, a, b)
    for s, exp, obs_ab, obs_ba in bad[:3]:
        ctx.violation("impl_equals_exact_intersection", {"kind": "lattice", "a": a, "b": b, "boxes": s},
                      expected=exp, observed={"obstruction(a,b)": obs_ab, "obstruction(b,a)": obs_ba})
    if not bad:
        ctx.machinery("Exact violated, lemmas hold, but no disagreeing set found for a=%s b=%s" % (a, b))


def exact_hits(a, b, box):
    """Rational slab method (harness copy, used only to NAME the failing box set in a report)."""
    from fractions import Fraction as F
    lo_t, hi_t = F(0), F(1)
    for i in range(3):
        d = b[i] - a[i]
        if d == 0:
            if not (box[0][i] <= a[i] <= box[1][i]):
                return False
            continue
        t1, t2 = F(box[0][i] - a[i], d), F(box[1][i] - a[i], d)
        lo_t, hi_t = max(lo_t, min(t1, t2)), min(hi_t, max(t1, t2))
    return lo_t <= hi_t


def first_bad_sets(sets, a, b):
    from basic_robotics.path_planning.pathplanner import RRTStar, PathNode
    from basic_robotics.general import tm
    out = []
    for s in sets:
        rrt = RRTStar(tm())
        for bx in s:
            rrt.addObstruction(list(bx[0]), list(bx[1]))
        na, nb = PathNode(tm(a + [0, 0, 0])), PathNode(tm(b + [0, 0, 0]))
        exp = any(exact_hits(a, b, bx) for bx in s)
        o1, o2 = bool(rrt.obstruction(na, nb)), bool(rrt.obstruction(nb, na))
        if o1 != exp or o2 != exp:
            out.append((s, exp, o1, o2))
    return out


def replay(ctx, rep):
    c = rep["case"]
    if c["kind"] == "lattice":
        bad = first_bad_sets([c["boxes"]], c["a"], c["b"])
        print("segment %s-%s boxes %s -> %s" % (c["a"], c["b"], c["boxes"], "still disagrees" if bad else "agrees now"))
        if bad:
            print("VIOLATION property=C15 replay=(replayed)")
            return 1
        return 0
    cc = c["case"]
    v = float_verdicts([cc])[0]
    sc = lambda p: [x for x in p]
    exp = any(exact_hits(sc(cc["a"]), sc(cc["b"]), bx) for bx in cc["boxes"])
    print("float case: impl=%s exact=%s" % (v, exp))
    if bool(v) != exp:
        print("VIOLATION property=C15 replay=(replayed)")
        return 1
    return 0
