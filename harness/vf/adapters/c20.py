"""C20 - disp never fails and shows every element it was given.

spec/Disp.tla enumerates the case space and carries the renderer's layout function Rows(shape);
TLC checks the layout lemma for every shape and exports each case with the clauses that apply
and the expected rows.  Every exported case is executed on the real disp().
"""
import contextlib
import io
import re

import numpy as np

from vf import tlc

LEVEL = "model_checking"
ROW = re.compile(r"^[^║╔╚]*[║╔╚] (.*) [║╗╝]$")
NUM = re.compile(r"^\s*[-+]?(\d+\.?\d*|\.\d+|inf|nan)([eE][-+]?\d+)?\s*$")


def value(k, dtype):
    if dtype == "float":
        v = ((k * 7.03125 + 0.123456789 * (k + 1)) * (1 + (k % 7) * 37.5)) % 9000.0
        return -v if k % 3 == 1 else v
    if dtype == "int":
        return (k * 37 - 100) % 9000 * (-1 if k % 4 == 1 else 1)
    return k % 2 == 0


def build(c):
    from basic_robotics.general import tm, Wrench
    k = c["kind"]
    if k == "array":
        n = int(np.prod(c["shape"])) if c["shape"] else 1
        dt = {"float": float, "int": np.int64, "bool": bool}[c["dtype"]]
        return np.array([value(i, c["dtype"]) for i in range(n)], dtype=dt).reshape(c["shape"])
    return {
        "scalar_int": lambda: 7, "scalar_float": lambda: -3.25, "string": lambda: "hello", "none": lambda: None,
        "list_flat": lambda: [1, 2.5, 3], "list_nested": lambda: [[1, 2], [3, [4, 5]], (6, 7)],
        "tuple": lambda: (1, (2, 3)), "tm": lambda: tm([1, 2, 3, 0.1, 0.2, 0.3]),
        "wrench": lambda: Wrench(np.array([1.0, 2, 3, 4, 5, 6])),
        "tm_list": lambda: [tm([1, 2, 3, 0.1, 0.2, 0.3]), tm(), tm([0, 0, 12345.678, 0, 0, 1])],
        "wrench_list": lambda: [Wrench(np.array([1.0, 2, 3, 4, 5, 6])), Wrench(np.array([0.0, 0, 0, 0, 0, -9.81]))],
        "empty_list": lambda: [], "arr0d": lambda: np.array(2.5),
        "arr_inf_nan": lambda: np.array([[np.inf, -np.inf], [np.nan, 1.5]]),
        "arr_huge": lambda: np.array([1e300, -1e300, 12345.678, -99999.5, 1e-300]),
        "list_mixed": lambda: [np.arange(3.0), "x", None, [np.eye(2)]], "np_scalar": lambda: np.float64(1.25),
    }[k]()


def run_case(ctx, case, stats):
    from basic_robotics.utilities.disp import disp
    c = case["c"]
    obj = build(c)
    title = "TT" if c["tpar"] == 0 else "TTT"
    buf = io.StringIO()
    try:
        with contextlib.redirect_stdout(buf):
            s = disp(obj, title, nd=c["nd"], mode=c["mode"], noprint=bool(c["noprint"]))
    except Exception as e:
        ctx.violation("total", {"case": c}, expected="returns a str", observed="%s: %s" % (type(e).__name__, e))
        return
    stats["calls"] += 1
    if not isinstance(s, str):
        ctx.violation("total", {"case": c}, expected="str", observed=type(s).__name__)
        return
    out = buf.getvalue()
    want = "" if c["noprint"] else s + "\n"
    if out != want:
        ctx.violation("printed", {"case": c}, expected=want[:300], observed=out[:300])
        return
    if "faithful" not in case["clauses"]:
        return
    flat = obj.reshape(-1)
    texts = []
    exp = [idx for row in case["rows"] for idx in row]
    if c["mode"] == 1:
        got = latex_numbers(s)
    else:
        got = []
        for line in s.split("\n"):
            if "BEGIN" in line or " END " in line or line.startswith(("DIM ", "Dim ")):
                continue
            m = ROW.match(line)
            if not m:
                continue
            body = m.group(1)
            if body.strip() == "":
                continue
            for f in body.split(","):
                if NUM.match(f):
                    got.append(float(f))
                    texts.append(f.strip())
                else:
                    got.append(None)
                    texts.append(None)
    stats["elements"] += len(exp)
    if len(got) != len(exp):
        ctx.violation("faithful:count", {"case": c}, expected=len(exp), observed={"fields": len(got), "text": s[:400]})
        return
    # 'rounded to the requested number of decimals': a field of a float array shows exactly nd decimals
    if c["mode"] == 0 and c["dtype"] == "float" and c["nd"] > 0:
        for pos, tx in enumerate(texts):
            if tx is not None and "." in tx and "e" not in tx.lower() and len(tx.split(".")[1]) != c["nd"]:
                ctx.violation("faithful:decimals", {"case": c, "flat_index": exp[pos]}, expected=c["nd"],
                              observed={"field": tx, "text": s[:400]})
                return
    half = 0.5 * 10.0 ** (-c["nd"])
    for pos, idx in enumerate(exp):
        x = float(flat[idx])
        g = got[pos]
        if g is None or abs(g - x) > half * (1 + 1e-9) + 1e-12:
            ctx.violation("faithful:value", {"case": c, "flat_index": idx}, expected=round(x, c["nd"]),
                          observed={"field": g, "text": s[:400]})
            return


def latex_numbers(s):
    got = []
    for line in s.split("\n"):
        if line.endswith("\\\\"):
            for f in line[:-2].split("&"):
                got.append(float(f) if NUM.match(f) else None)
    return got


def cfg(ctx):
    if ctx.quick:
        return ("SPECIFICATION Spec\nCONSTANTS\n  MaxExt = 4\n  MaxAxes = 5\n  Decimals = {0,1,2,3,5,8}\n  FullAxes = 2\n"
                "INVARIANT LayoutFaithful\nINVARIANT Dump\n")
    return ("SPECIFICATION Spec\nCONSTANTS\n  MaxExt = 4\n  MaxAxes = 5\n  Decimals = {0,1,2,3,4,5,6,7,8}\n  FullAxes = 4\n"
            "INVARIANT LayoutFaithful\nINVARIANT Dump\n")


def run(ctx):
    with ctx.timed("tlc"):
        r = tlc.run("Disp", cfg_text=cfg(ctx), timeout=3000, heap="8g")
    ctx.add_tlc("case-space + layout lemma", r)
    if r.violated:
        ctx.model_violation("Disp layout lemma", r)
    if r.errors:
        ctx.machinery(r.counterexample())
    cases = r.json
    if len(cases) < 1000:
        ctx.machinery("only %d cases exported" % len(cases))
    stats = {"calls": 0, "elements": 0}
    with ctx.timed("impl"):
        for case in cases:
            run_case(ctx, case, stats)
    faithful = sum(1 for c in cases if "faithful" in c["clauses"])
    nontriv = sum(1 for c in cases if "faithful" in c["clauses"] and len(c["rows"]) > 0 and len(c["rows"][0]) > 0)
    kinds = sorted(set(c["c"]["kind"] for c in cases))
    ctx.sample(next(c for c in cases if c["c"]["kind"] == "array" and len(c["c"]["shape"]) == 3 and c["rows"]))
    ctx.sample(next(c for c in cases if c["c"]["kind"] == "tm_list"))
    return ctx.finish({
        "traces_validated_against_impl": len(cases), "evaluations": len(cases), "impl_calls": stats["calls"],
        "cases_with_faithfulness_clause": faithful, "distinct_nontrivial": nontriv, "elements_compared": stats["elements"],
        "kinds": kinds, "exhaustive": True,
        "rule": "TLC enumerates kinds x shapes (extents 0..4, up to 5 axes) x dtypes x decimals x title parity x print "
                "switch x mode (full product up to FullAxes axes, default parameters beyond); non-trivial = a numeric "
                "array with at least one element whose rendering is compared element by element",
    }, assumptions=["numeric fields are recognised as comma-separated fields between frame characters; lines containing "
                    "BEGIN/END or starting with DIM are titles", "array values are chosen by the harness: distinct, "
                    "|x| < 9000, with fractions sensitive to every nd"])


def replay(ctx, rep):
    stats = {"calls": 0, "elements": 0}
    case = {"c": rep["case"]["case"], "clauses": ["total", "printed", "faithful"], "rows": []}
    c = case["c"]
    if c["kind"] == "array" and 1 <= len(c["shape"]) <= 4:
        n = int(np.prod(c["shape"]))
        w = c["shape"][-1]
        case["rows"] = [list(range(i, i + w)) for i in range(0, n, w)] if w else []
    else:
        case["clauses"] = ["total", "printed"]
    run_case(ctx, case, stats)
    return 1 if ctx.violations else 0
