"""C17 - compiled kernels never index out of bounds and match their interpreted source.

spec/KernelShapes.tla holds the shape contract of every loop-indexed kernel and a model of the Python
callers; TLC checks that every caller (all arm sizes, all link / joint indices) meets its callee's
contract and exports probe shapes on both sides of each contract.
 (a) contract <-> kernel : every probe is run in a subprocess with NUMBA_BOUNDSCHECK=1; the spec's
     InBounds must coincide with "no IndexError".
 (b) code -> spec        : the public tm / Arm / SP / Modern Robotics entry points run once with bounds
     checking and once without; no call may raise an IndexError, results must be unchanged, and every
     observed Python -> kernel call (logged by wrapping the kernel attributes) is validated by TLC
     against spec/KernelTrace.tla.
 (c) compiled = interpreted : each jitted function is compared with its own py_func on C-ordered,
     Fortran-ordered, sliced and integer-typed arguments it accepts.
"""
import json
import os
import re
import random
import subprocess
import sys

import numpy as np

from vf import tlc
from vf.law import LawLog

LEVEL = "model_checking"
HERE = os.path.dirname(os.path.dirname(os.path.dirname(os.path.dirname(os.path.abspath(__file__)))))


def sub(args, boundscheck, timeout=1500):
    env = dict(os.environ)
    env["NUMBA_BOUNDSCHECK"] = "1" if boundscheck else "0"
    env["NUMBA_CACHE_DIR"] = os.path.join(tlc.CACHE, "numba-bc" if boundscheck else "numba")
    env["PYTHONPATH"] = os.path.join(HERE, "harness") + ":" + os.path.join(HERE, "vendor")
    if os.environ.get("VF_REPO"):
        env["PYTHONPATH"] = os.environ["VF_REPO"] + ":" + env["PYTHONPATH"]
    p = subprocess.run([sys.executable, "-m", "vf.kernel_runner"] + [str(a) for a in args], env=env, cwd=HERE, timeout=timeout,
                       stdout=subprocess.PIPE, stderr=subprocess.STDOUT, text=True)
    return p


def sub_start(args, boundscheck):
    env = dict(os.environ)
    env["NUMBA_BOUNDSCHECK"] = "1" if boundscheck else "0"
    env["NUMBA_CACHE_DIR"] = os.path.join(tlc.CACHE, "numba-bc" if boundscheck else "numba")
    env["PYTHONPATH"] = os.path.join(HERE, "harness") + ":" + os.path.join(HERE, "vendor")
    if os.environ.get("VF_REPO"):
        env["PYTHONPATH"] = os.environ["VF_REPO"] + ":" + env["PYTHONPATH"]
    return subprocess.Popen([sys.executable, "-m", "vf.kernel_runner"] + [str(a) for a in args], env=env, cwd=HERE,
                            stdout=subprocess.PIPE, stderr=subprocess.STDOUT, text=True)


def layouts(arr, rng):
    """C-ordered, Fortran-ordered and sliced views of the same values"""
    out = {"C": np.ascontiguousarray(arr)}
    if arr.ndim >= 2:
        out["F"] = np.asfortranarray(arr)
    big = np.zeros(tuple(2 * s + 1 for s in arr.shape))
    sl = tuple(slice(1, 2 * s + 1, 2) for s in arr.shape)
    big[sl] = arr
    out["sliced"] = big[sl]
    return out


def pyfunc_part(L, rng, count):
    from vf.adapters import c02
    from numba.core import errors as numba_errors
    import basic_robotics.modern_robotics_numba.modern_high_performance as mr
    import basic_robotics.general.faser_high_performance as fhp
    jitted = sorted(n for n, f in vars(mr).items() if hasattr(f, "py_func"))
    shared = set(c02.shared_names())
    for fn in jitted:
        f = getattr(mr, fn)
        if fn not in shared:
            continue
        for _ in range(count):
            _, args = c02.gen_args(fn, rng)
            base = c02.cp(args)
            try:
                want = f.py_func(*c02.cp(args))
            except Exception as e:
                continue
            for lay in ("C", "F", "sliced", "int"):
                a2 = []
                for a in base:
                    if isinstance(a, np.ndarray):
                        if lay == "int":
                            a2.append(np.round(a).astype(np.int64))
                        else:
                            a2.append(layouts(a, rng).get(lay, a))
                    else:
                        a2.append(a)
                if lay == "int":
                    try:
                        want_i = f.py_func(*[x.copy() if isinstance(x, np.ndarray) else x for x in a2])
                    except Exception:
                        continue
                else:
                    want_i = want
                try:
                    got = f(*[x.copy() if (isinstance(x, np.ndarray) and lay == "C") else x for x in a2])
                except (TypeError, numba_errors.TypingError, numba_errors.LoweringError):
                    L.log("%s: argument form not accepted by the compiled kernel" % fn, lay, 0.0, 1.0, {"fn": fn})
                    continue
                except Exception as e:
                    L.log("%s: compiled = interpreted" % fn, lay, float("inf"), 1e-12, {"fn": fn, "raised": repr(e)[:200]})
                    continue
                same, err = c02.compare(got, want_i)
                if not np.all(np.isfinite(np.asarray(c02.np.hstack([np.asarray(x, dtype=float).reshape(-1) for x in (want_i if isinstance(want_i, (tuple, list)) else [want_i])])))):
                    continue
                L.log("%s: compiled = interpreted" % fn, lay, err if same else float("inf"), 1e-12 if lay != "int" else 1e-9, {"fn": fn, "layout": lay})


def run(ctx):
    rng = random.Random(ctx.seed + 17)
    os.makedirs(os.path.join(tlc.CACHE, "traces"), exist_ok=True)
    cfg = "SPECIFICATION Spec\nCONSTANTS\n  MaxN = 7\nINVARIANT CallersRespectContracts\nINVARIANT OldFKLinkBreaksContract\nINVARIANT DumpProbes\n"
    with ctx.timed("tlc-contracts"):
        r = tlc.run("KernelShapes", cfg_text=cfg, timeout=600)
    ctx.add_tlc("callers respect kernel contracts (n <= 7, all indices)", r)
    if not r.ok:
        ctx.model_violation("KernelShapes", r)
    probes = r.json[0]["probes"]
    L = LawLog()
    # (a) contract <-> compiled kernel under bounds checking
    pin = tlc.write_json(probes, "c17-probes")
    pout = pin + ".out"
    with ctx.timed("probes-boundscheck"):
        p = sub(["probes", pin, pout], True)
    if p.returncode != 0:
        ctx.machinery("probe subprocess failed:\n" + p.stdout[-2000:])
    for c in json.load(open(pout)):
        agrees = (c["raised"] is None) == bool(c["ok"])
        if c["raised"] not in (None, "IndexError"):
            agrees = False
        L.log("contract InBounds <=> no IndexError under bounds checking", c["k"], 0.0 if agrees else float("inf"), 1.0, c)
    # (b) public entry points, with and without bounds checking
    outs = {}
    with ctx.timed("battery"):
        procs = {}
        for bc in (True, False):            # the two executions run side by side
            o = os.path.join(tlc.CACHE, "traces", "c17-battery-%d.json" % int(bc))
            procs[bc] = (o, sub_start(["battery", ctx.seed + 1, o], bc))
        for bc, (o, pr) in procs.items():
            try:
                out, _ = pr.communicate(timeout=1500)
            except subprocess.TimeoutExpired:
                pr.kill()
                ctx.machinery("battery subprocess (boundscheck=%s) timed out" % bc)
            if pr.returncode != 0:
                ctx.machinery("battery subprocess (boundscheck=%s) failed:\n%s" % (bc, out[-3000:]))
            outs[bc] = json.load(open(o))
    plain = {x["name"]: x for x in outs[False]["results"]}
    for x in outs[True]["results"]:
        y = plain.get(x["name"])
        fam = re.sub(r"\d+", "", x["name"].split(".")[0])
        if x["raised"] and "IndexError" in x["raised"]:
            L.log("no index error under bounds checking", fam, float("inf"), 1.0, {"call": x["name"], "raised": x["raised"]})
            continue
        L.log("no index error under bounds checking", fam, 0.0, 1.0, {"call": x["name"]})
        if y is None or (x["raised"] is None) != (y["raised"] is None):
            L.log("same outcome with and without bounds checking", fam, float("inf"), 1.0, {"call": x["name"], "bc": x["raised"], "plain": y and y["raised"]})
            continue
        if x["raised"] is None:
            a, b = np.array(x["value"], dtype=float), np.array(y["value"], dtype=float)
            err = float("inf") if a.shape != b.shape else (0.0 if a.size == 0 else float(np.nanmax(np.abs(a - b)) / max(1.0, float(np.nanmax(np.abs(b))))))
            L.log("results unchanged by bounds checking", fam, err, 1e-9, {"call": x["name"]})
    ev = outs[True]["events"]
    tpath = tlc.write_json(ev, "c17-events")
    with ctx.timed("kernel-trace"):
        kt = tlc.run("KernelTrace", cfg_text="SPECIFICATION Spec\nCONSTANTS\n  MaxN = 7\nINVARIANT Report\nINVARIANT Checked\n",
                     env={"TRACE_FILE": tpath}, timeout=600, workers=2)
    ctx.add_tlc("observed kernel calls against the contracts", kt)
    if kt.errors:
        ctx.machinery("KernelTrace failed:\n" + kt.counterexample())
    checked = [j["n"] for j in kt.json if j.get("k") == "CHECKED"]
    if not checked or checked[0] != len(ev) or len(ev) < 50:
        ctx.machinery("kernel trace not fully checked (%s of %d events)" % (checked, len(ev)))
    for j in kt.json:
        if j.get("k") == "BAD":
            seen = set()
            for idx in j["s"]:
                e = ev[idx - 1]
                key = (e["kernel"], e["caller"].split("[")[0])
                if key in seen:
                    ctx.violations += 1
                    continue
                seen.add(key)
                ctx.violation("caller_breaks_kernel_contract", {"event": e}, expected="thetas <= cols", observed=e)
    # (c) compiled vs interpreted
    with ctx.timed("py_func"):
        pyfunc_part(L, rng, ctx.pick(2, 40))
    for fam in ("tm", "fsr", "phys", "6R-kin", "ur", "SP", "mr"):
        pass
    L.require("no index error under bounds checking", "mr", 90)
    L.require("no index error under bounds checking", "SP", 10)
    L.require("no index error under bounds checking", "physR", 30)
    L.require("contract InBounds <=> no IndexError under bounds checking", "FKinSpace", 20)
    L.require("contract InBounds <=> no IndexError under bounds checking", "JacobianBody", 20)
    with ctx.timed("lawtrace"):
        counts = L.decide(ctx, tag="c17")
    ctx.sample({"kernel_event": ev[0], "probe": probes[0]})
    ctx.sample({"battery_call": outs[True]["results"][40]["name"]})
    return ctx.finish({
        "traces_validated_against_impl": len(ev), "evaluations": len(L.events) + len(ev), "kernel_call_events": len(ev),
        "probe_cases": len(probes), "entry_point_calls": len(outs[True]["results"]), "distinct_nontrivial": len(L.events),
        "rule": "probes: every chain kernel x cols 1..4 x joint-vector length 0..5; battery: transforms, five arms (every "
                "link/joint index), three platforms and two calls of each of the 47 Modern Robotics functions, executed with "
                "and without NUMBA_BOUNDSCHECK=1; py_func comparison on C / Fortran / sliced / integer arguments",
    }, assumptions=["Numba's bounds checker is the detector of out-of-range accesses; the TLA+ part holds the shape contracts and "
                    "proves the callers meet them", "a TypeError from an explicit signature means the layout is not accepted"])


def replay(ctx, rep):
    print("re-run the check; case:", rep["case"])
    return 0
