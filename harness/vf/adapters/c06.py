"""C06 - arm Jacobians are the derivative of forward kinematics; statics is its transpose.

Same specification and replay engine as C05 (spec/Arm.tla): the Jacobian / statics obligations
J1..J3, S1..S2 are owed in EVERY state reachable through moves, tool changes and restores in which
the joint vector is known; they are evaluated after every step of every TLC history:
  J1 space Jacobian = d(FK)/d(theta) (Richardson central differences of the code's own FK, steps 1e-3/5e-4)
  J2 body Jacobian = Ad(inv T) * space Jacobian        J3 tool-aligned and numerical variants
  S1 torque . rate = wrench . twist                    S2 staticForcesInv(staticForces(F)) = F at full rank
plus the exact lattice part: spec/MRExact.tla column formula (C02) - see c02.
"""
import random

import numpy as np

from vf import tlc, zoo
from vf.adapters import c05

LEVEL = "model_checking"


def run(ctx):
    import basic_robotics.kinematics  # noqa: F401
    with ctx.timed("model"):
        r = tlc.run("ArmMC", cfg_text=c05.cfg(ctx.pick(4, 5), "AllOps", "mc"), timeout=3000, heap="8g")
    ctx.add_tlc("bookkeeping model", r)
    if not r.ok:
        ctx.model_violation("Arm model", r)
    plans = [("depth2-kinematic-ops", c05.cfg(2, "KinOps", "gen"), None),
             ("depth3-kinematic-ops", c05.cfg(3, "KinOps", "gen"), None),
             ("simulate-depth8", c05.cfg(8, "NoIK", "gen"), (ctx.pick(60, 3000), 8))]
    from vf import armrun
    armrun.known_probes(ctx)
    allg = c05.generate(ctx, plans)
    mk = c05.makers(ctx)
    c05._C06 = True
    with ctx.timed("replay"):
        n = c05.replay_all(ctx, allg, mk, per_arm_cap=ctx.pick(900, 8000))
    ngroups = sum(len(g) for _, g in allg)
    ctx.sample({"arm": mk[1][0], "ops": [{k: v for k, v in r.items() if k != "st"} for r in allg[1][1][11][0]],
                "obligations": ["J1", "J2", "J3", "S1", "S2"]})
    return ctx.finish({
        "traces_validated_against_impl": n, "evaluations": n, "arms": [m[0] for m in mk],
        "distinct_op_sequences": ngroups, "distinct_nontrivial": ngroups - 1,
        "rule": "every TLC history over {FK, move, setArbitraryHome, restoreOriginalEE} to depth 3 plus simulated "
                "depth-8 histories, replayed on every arm of the zoo (sampled to the cap); the Jacobian/statics "
                "obligations are evaluated in every visited state with a known joint vector",
    }, assumptions=["the derivative is taken on the implementation's FK (which C05 ties to the product of exponentials)",
                    "Richardson steps 1e-3 / 5e-4; comparison 1e-6 relative to the Jacobian norm; columns whose "
                    "finite-difference stencil would leave the joint limits are skipped"])


def replay(ctx, rep):
    print("re-run the check with the same seed; case:", rep["case"])
    return 0
