"""C06 - arm Jacobians are the derivative of forward kinematics; statics is its transpose.

Same specification and replay engine as C05 (spec/Arm.tla): the Jacobian / statics obligations
J1..J3, S1..S2 are owed in EVERY state reachable through moves, tool changes and restores in which
the joint vector is known; they are evaluated after every step of every TLC history:
  J1 space Jacobian = d(FK)/d(theta) (Richardson central differences of the code's own FK, steps 1e-3/5e-4)
  J2 body Jacobian = Ad(inv T) * space Jacobian        J3 tool-aligned and numerical variants
  S1 torque . rate = wrench . twist                    S2 staticForcesInv(staticForces(F)) = F at full rank
plus the exact lattice part: spec/MRExact.tla column formula (C02) - see c02.
"""
import random

import numpy as np

from vf import tlc, zoo
from vf.adapters import c05

LEVEL = "model_checking"


def link_level(ctx, rng, count):
    """J3 (link Jacobians) and S3 (link-mass statics) on arms that carry link frames and masses, built through the
    public setters from chain data the harness owns (so the oracle never reads the arm's fields)."""
    import contextlib
    import io
    from scipy.linalg import expm
    from vf import refeval as rf
    from vf.adapters import c08
    from basic_robotics.general import tm, Wrench
    from basic_robotics.kinematics import Arm
    done = 0
    for _ in range(count):
        n = rng.choice([1, 2, 3, 5, 6])
        c = c08.phys_chain(rng, n)
        S = c["S"]
        link_home, acc = [], np.eye(4)
        for i in range(n):
            acc = acc @ c["M"][i]
            link_home.append(acc.copy())
        home = acc @ c["M"][n]
        masses = [rng.uniform(0.5, 5) for _ in range(n + 1)]
        cgs = [c08.c02.rand_se3(rng, 0.2) for _ in range(n + 1)]
        base = zoo.rand_pose(rng, 1.5) if rng.random() < 0.5 else np.eye(4)
        with contextlib.redirect_stdout(io.StringIO()):
            arm = Arm(tm(np.eye(4)), S.copy(), tm(home.copy()), c["pts"].copy(), S[:3, :].copy())
            arm.setJointProperties(np.ones(n) * -2 * np.pi, np.ones(n) * 2 * np.pi)
            arm.setOrigins(link_homes_global=[tm(m.copy()) for m in link_home])
            arm.setMassProperties(np.array(masses), [tm(m.copy()) for m in cgs], c["G"].copy())
        th = np.array([rng.uniform(-2, 2) for _ in range(n)])
        Js = zoo.jac_space_expected({"S": S, "mins": np.ones(n) * -10, "maxs": np.ones(n) * 10}, np.eye(4), th)
        scale = max(1.0, float(np.abs(Js).max()))
        for i in range(n):
            E = np.eye(4)
            for j in range(i + 1):
                E = E @ expm(rf.hat6(S[:, j]) * th[j])
            Tl = E @ link_home[i]
            want = np.zeros((6, n))
            want[:, :i + 1] = rf.adjoint(rf.trans_inv(Tl)) @ Js[:, :i + 1]
            with contextlib.redirect_stdout(io.StringIO()):
                got = np.asarray(arm.jacobianLink(i, th.copy()), dtype=float)
            if got.shape != want.shape or float(np.abs(got - want).max()) / scale > 1e-6:
                ctx.violation("J3_link_jacobian=Ad(inv T_link)*J_space", {"n": n, "link": i, "theta": th.tolist(), "S": S.tolist()},
                              expected=want.tolist(), observed=got.tolist())
                return done
        # S3: the link-mass variant adds the moment of each link's weight about each joint axis
        F = np.array([rng.uniform(-10, 10) for _ in range(6)]).reshape((6, 1))
        g = np.asarray(arm.getGrav(), dtype=float)
        with contextlib.redirect_stdout(io.StringIO()):
            t_m = np.asarray(arm.staticForcesWithLinkMasses(Wrench(F.copy()), th.copy()), dtype=float).reshape(n)
            t_0 = np.asarray(arm.staticForces(Wrench(F.copy()), th.copy()), dtype=float).reshape(n)
        # joint frames at theta, computed by RefEval (never read back from the arm: the state it holds is part of what is judged)
        frames = [np.eye(4)]
        E = np.eye(4)
        for k in range(1, n + 1):
            E = E @ expm(rf.hat6(S[:, k - 1]) * th[k - 1])
            Hk = np.eye(4)                      # joint k's home frame: the point handed to the constructor, no rotation
            Hk[:3, 3] = c["pts"][:, k - 1]
            frames.append(E @ Hk)
        extra = np.zeros(n)
        for k in range(1, n + 1):                      # link k hangs on joint k: weight at frame_k * cg_k
            p = (frames[k] @ cgs[k])[:3, 3]
            f = g * masses[k]
            W = np.concatenate([np.cross(p, f), f])
            for j in range(k):
                extra[j] += float(Js[:, j] @ W)
        if float(np.abs((t_m - t_0) - extra).max()) > 1e-6 * max(1.0, float(np.abs(extra).max())):
            ctx.violation("S3_link_mass_statics_adds_the_weight_moments", {"n": n, "theta": th.tolist()}, expected=extra.tolist(),
                          observed=(t_m - t_0).tolist())
            return done
        done += 1
    return done


def run(ctx):
    import basic_robotics.kinematics  # noqa: F401
    with ctx.timed("model"):
        r = tlc.run("ArmMC", cfg_text=c05.cfg(ctx.pick(4, 5), "AllOps", "mc"), timeout=3000, heap="8g")
    ctx.add_tlc("bookkeeping model", r)
    if not r.ok:
        ctx.model_violation("Arm model", r)
    plans = [("depth2-kinematic-ops", c05.cfg(2, "KinOps", "gen"), None),
             ("depth3-kinematic-ops", c05.cfg(3, "KinOps", "gen"), None),
             ("simulate-depth8", c05.cfg(8, "NoIK", "gen"), (ctx.pick(60, 3000), 8))]
    from vf import armrun
    armrun.known_probes(ctx)
    allg = c05.generate(ctx, plans)
    mk = c05.makers(ctx)
    c05._C06 = True
    with ctx.timed("replay"):
        n = c05.replay_all(ctx, allg, mk, per_arm_cap=ctx.pick(900, 8000))
    with ctx.timed("link-level"):
        n_link = link_level(ctx, random.Random(ctx.seed + 66), ctx.pick(40, 2000))
    ctx.cov["link_level_arms_checked"] = n_link
    ngroups = sum(len(g) for _, g in allg)
    ctx.sample({"arm": mk[1][0], "ops": [{k: v for k, v in r.items() if k != "st"} for r in allg[1][1][11][0]],
                "obligations": ["J1", "J2", "J3", "S1", "S2"]})
    return ctx.finish({
        "traces_validated_against_impl": n, "evaluations": n, "arms": [m[0] for m in mk],
        "distinct_op_sequences": ngroups, "distinct_nontrivial": ngroups - 1,
        "rule": "every TLC history over {FK, move, setArbitraryHome, restoreOriginalEE} to depth 3 plus simulated "
                "depth-8 histories, replayed on every arm of the zoo (sampled to the cap); the Jacobian/statics "
                "obligations are evaluated in every visited state with a known joint vector",
    }, assumptions=["the derivative is taken on the implementation's FK (which C05 ties to the product of exponentials)",
                    "Richardson steps 1e-3 / 5e-4; comparison 1e-6 relative to the Jacobian norm; columns whose "
                    "finite-difference stencil would leave the joint limits are skipped"])


def replay(ctx, rep):
    c = rep["case"]
    if "behaviour" in c:
        c05._C06 = True
        return c05.replay(ctx, rep)
    print("re-run the check with the same seed; case:", c)
    return 0
