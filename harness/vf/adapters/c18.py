"""C18 - geometric helper functions satisfy their defining relations.

Exact part : spec/Helpers.tla (QSE3) - TLC checks that the mirror is an involution that fixes the
             plane and negates only the local z coordinate for rotated, off-origin frames, that a
             plane through three points contains them, path end points / even spacing, and exports
             the exact mirror images and plane coefficients compared with fsr.mirror /
             fsr.planeFromThreePoints.
Law trace  : every helper of the statement over the quantifier's domain (|p| <= 10, angle <= pi-1e-3,
             frames off the origin and rotated, steps in (0,1], counts 2..200, 1..2000 sphere points,
             angles in [-50,50] as scalar / array / 6-vector), each helper x each argument form a
             coverage obligation; decided by TLC against spec/LawTrace.tla.
"""
import math
import random

import numpy as np

from vf import tlc, refeval as rf
from vf.law import LawLog
from vf.adapters.c01 import tf_mat

LEVEL = "model_checking"
PI = math.pi
LEMMAS = ["MirrorInvolution", "MirrorNegatesLocalZ", "MirrorFixesPlane", "MirrorMovesOffPlane", "PlaneContains", "PathLaws"]


def pose(rng, pscale=10.0, max_angle=PI - 1e-3):
    ax = np.array([rng.gauss(0, 1) for _ in range(3)])
    ax /= np.linalg.norm(ax)
    th = rng.choice([0.0, rng.uniform(0, max_angle), rng.uniform(0, 1.0)])
    p = np.array([rng.uniform(-1, 1) for _ in range(3)]) * pscale / math.sqrt(3)
    return rf.taa_to_tm(list(p) + list(ax * th))


def exact_part(L, rows):
    from basic_robotics.general import tm, fsr
    for r in rows:
        F = tf_mat(r["F"])
        x = np.array(r["x"], dtype=float)
        want = np.array(r["mirror"]["v"], dtype=float) / r["mirror"]["den"]
        got = np.asarray(fsr.mirror(tm(F.copy()), tm(list(x) + [0, 0, 0]))[0:3], dtype=float).reshape(3)
        off = "off-origin" if any(r["F"]["p"]) else "through-origin"
        rot = "rotated" if r["F"]["q"][1:] != [0, 0, 0] else "unrotated"
        L.log("mirror = exact reflection", "exact|%s|%s" % (off, rot), float(np.abs(got - want).max()) / max(1.0, float(np.abs(want).max())),
              1e-8, {"F": r["F"], "x": r["x"]})
    for off in ("off-origin", "through-origin"):
        L.require("mirror = exact reflection", "exact|%s|%s" % (off, "rotated" if off == "off-origin" else "unrotated"), 3)


def float_part(L, rng, n):
    from basic_robotics.general import tm, fsr
    import basic_robotics.modern_robotics_numba.modern_high_performance as fmr
    reg = "float"
    for _ in range(n):
        A, B = pose(rng), pose(rng)
        a, b = tm(A.copy()), tm(B.copy())
        case = {"A": A.tolist(), "B": B.tolist()}
        # ---- mirror across the local XY plane of A (A is rotated and off the origin)
        x = np.array([rng.uniform(-10, 10) for _ in range(3)]) / math.sqrt(3)
        m = np.asarray(fsr.mirror(a, tm(list(x) + [0, 0, 0]))[0:3], dtype=float).reshape(3)
        loc = rf.trans_inv(A) @ np.append(x, 1)
        want = (A @ np.array([loc[0], loc[1], -loc[2], 1]))[:3]
        L.log("mirror negates only the local z", reg, float(np.abs(m - want).max()) / 10, 1e-8, dict(case, x=x.tolist()))
        m2 = np.asarray(fsr.mirror(a, tm(list(m) + [0, 0, 0]))[0:3], dtype=float).reshape(3)
        L.log("mirror is an involution", reg, float(np.abs(m2 - x).max()) / 10, 1e-8, dict(case, x=x.tolist()))
        # ---- plane through three points
        p1, p2, p3 = [np.array([rng.uniform(-10, 10) for _ in range(3)]) / math.sqrt(3) for _ in range(3)]
        pa, pb, pc, pd = fsr.planeFromThreePoints(tm(list(p1) + [0, 0, 0]), tm(list(p2) + [0, 0, 0]), tm(list(p3) + [0, 0, 0]))
        nrm = math.sqrt(pa * pa + pb * pb + pc * pc)
        if nrm > 1e-3:
            worst = max(abs(pa * p[0] + pb * p[1] + pc * p[2] - pd) / nrm for p in (p1, p2, p3))
            L.log("plane contains its three points", reg, worst / 10, 1e-8, {"p": [p1.tolist(), p2.tolist(), p3.tolist()]})
        # ---- midpoints
        mid = fsr.tmInterpMidpoint(a, b).gTM()
        L.log("interp midpoint: mean position", reg, float(np.abs(mid[:3, 3] - (A[:3, 3] + B[:3, 3]) / 2).max()) / 10, 1e-8, case)
        rel = A[:3, :3].T @ B[:3, :3]
        if rf.rot_angle(rel) < PI - 1e-2:
            Rm = A[:3, :3] @ rf.rot_exp(0.5 * rf.rot_log(rel))
            L.log("interp midpoint: rotation geodesically halfway", reg, float(np.abs(mid[:3, :3] - Rm).max()), 1e-8, case)
        avg = fsr.tmAvgMidpoint(a, b).gTAA().reshape(6)
        L.log("avg midpoint: mean position", reg, float(np.abs(avg[:3] - (A[:3, 3] + B[:3, 3]) / 2).max()) / 10, 1e-8, case)
        # ---- lookAt
        # targets in general position, straight above / below the eye (the world-up construction degenerates there)
        # and a hair off the vertical
        tgt = [("float", B)]
        for kind, dxy in (("float|vertical", 0.0), ("float|near-vertical", rng.choice([1e-9, 1e-6, 1e-4]))):
            V = B.copy()
            V[:2, 3] = A[:2, 3] + dxy
            V[2, 3] = A[2, 3] + rng.choice([-1, 1]) * rng.choice([1e-3, 0.1, 1.0, rng.uniform(0.5, 10)])
            tgt.append((kind, V))
        for lreg, Bt in tgt:
            dvec = Bt[:3, 3] - A[:3, 3]
            if np.linalg.norm(dvec) < 1e-4:
                continue
            lcase = {"A": A.tolist(), "B": Bt.tolist()}
            la = fsr.lookAt(a, tm(Bt.copy())).gTM()
            z = dvec / np.linalg.norm(dvec)
            L.log("lookAt keeps the position", lreg, float(np.abs(la[:3, 3] - A[:3, 3]).max()) / 10, 1e-8, lcase)
            L.log("lookAt is a proper rotation", lreg, max(float(np.abs(la[:3, :3].T @ la[:3, :3] - np.eye(3)).max()),
                                                          abs(np.linalg.det(la[:3, :3]) - 1)), 1e-8, lcase)
            L.log("lookAt points local z at the target", lreg, float(np.abs(la[:3, 2] - z).max()), 1e-8, lcase)
        # ---- rotationFromVector (optimiser): local z of the result points from A to B
        if np.linalg.norm(B[:3, 3] - A[:3, 3]) > 0.5 and rng.random() < 0.25:
            start = tm(list(A[:3, 3]) + [0.1, 0.1, 0.0])
            rv = fsr.rotationFromVector(start, b).gTM()
            z = (B[:3, 3] - A[:3, 3]) / np.linalg.norm(B[:3, 3] - A[:3, 3])
            L.log("rotationFromVector points local z along the vector", reg, float(np.abs(rv[:3, 2] - z).max()), 1e-5, case)
        # ---- distances
        C = pose(rng)
        c3 = tm(C.copy())
        dab, dbc, dac = fsr.distance(a, b), fsr.distance(b, c3), fsr.distance(a, c3)
        L.log("distance = Euclidean", reg, abs(dab - float(np.linalg.norm(A[:3, 3] - B[:3, 3]))) / 10, 1e-8, case)
        L.log("distance symmetric", reg, abs(dab - fsr.distance(b, a)) / 10, 1e-8, case)
        L.log("distance triangle inequality", reg, max(0.0, dac - dab - dbc) / 10, 1e-8, case)
        L.log("distance(a,a) = 0", reg, abs(fsr.distance(a, a)), 1e-8, case)
        rel6 = rf.tm_to_taa(rf.trans_inv(A) @ B)
        ad = float(np.asarray(fsr.arcDistance(a, b)).reshape(-1)[0])
        L.log("arcDistance = norm of the relative pose", reg, abs(ad - float(np.linalg.norm(rel6))) / 10, 1e-8, case)
        # ---- gap closing
        delta = rng.uniform(1e-3, 1.0)
        d6 = b.gTAA().reshape(6) - a.gTAA().reshape(6)
        if np.linalg.norm(d6) > delta:
            g = fsr.closeLinearGap(a, b, delta).gTAA().reshape(6)
            step = g - a.gTAA().reshape(6)
            L.log("closeLinearGap advances by exactly delta", reg, abs(float(np.linalg.norm(step)) - delta), 1e-8, dict(case, delta=delta))
            L.log("closeLinearGap moves toward the goal", reg, float(np.linalg.norm(step / delta - d6 / np.linalg.norm(d6))), 1e-8, case)
            ga = fsr.closeArcGap(a, b, delta)
            adv = float(np.asarray(fsr.arcDistance(a, ga)).reshape(-1)[0])
            L.log("closeArcGap advances by exactly delta", reg, abs(adv - delta), 1e-8, dict(case, delta=delta))
        # ---- the same with the goal a hair away from the origin (1e-9 .. 1e-4 in the six-vector): a step of delta is
        #      still a step of exactly delta along the line to the goal - "already there" means equal, not close
        if rng.random() < 0.3:
            e6 = np.array([rng.gauss(0, 1) for _ in range(6)])
            e6 *= 10 ** rng.uniform(-9, -4) / np.linalg.norm(e6)
            bc = tm(list(a.gTAA().reshape(6) + e6))
            dc = bc.gTAA().reshape(6) - a.gTAA().reshape(6)
            if np.linalg.norm(dc) > 0:
                cc = dict(case, close_goal=bc.gTAA().reshape(6).tolist(), delta=delta)
                g = fsr.closeLinearGap(a, bc, delta).gTAA().reshape(6)
                step = g - a.gTAA().reshape(6)
                L.log("closeLinearGap advances by exactly delta", "float|close-goal", abs(float(np.linalg.norm(step)) - delta), 1e-8, cc)
                L.log("closeLinearGap moves toward the goal", "float|close-goal",
                      float(np.linalg.norm(step / delta - dc / np.linalg.norm(dc))), 1e-6, cc)
                ga = fsr.closeArcGap(a, bc, delta)
                adv = float(np.asarray(fsr.arcDistance(a, ga)).reshape(-1)[0])
                L.log("closeArcGap advances by exactly delta", "float|close-goal", abs(adv - delta), 1e-8, cc)
        # ---- straight path
        N = rng.choice([2, 3, rng.randint(2, 200)])
        path = fsr.IKPath(a, b, N)
        pts = np.array([p.gTAA().reshape(6) for p in path])
        want = np.array([a.gTAA().reshape(6) + d6 * i / (N - 1) for i in range(N)])
        L.log("IKPath has the requested number of poses", reg, 0.0 if len(path) == N else float("inf"), 1.0, dict(case, N=N))
        if len(path) == N:
            L.log("IKPath evenly spaced from start to goal", reg, float(np.abs(pts - want).max()) / 10, 1e-8, dict(case, N=N))
        # ---- twist to a goal
        tw = np.asarray(fsr.twistToGoal(a, b), dtype=float).reshape(6)
        L.log("exp(twistToGoal) * start = goal", reg, float(np.abs(rf.se3_exp(tw) @ A - B).max()) / 10, 1e-8, case)
        # ---- Jacobians
        n = rng.randint(1, 6)
        S = np.zeros((6, n))
        for i in range(n):
            w = np.array([rng.gauss(0, 1) for _ in range(3)])
            w /= np.linalg.norm(w)
            q = np.array([rng.uniform(-1, 1) for _ in range(3)])
            S[:, i] = np.concatenate([w, -np.cross(w, q)])
        th = np.array([rng.uniform(-PI, PI) for _ in range(n)])
        Jc = np.asarray(fsr.chainJacobian(S.copy(), th.copy()), dtype=float)
        L.log("chainJacobian = analytic space Jacobian", reg, float(np.abs(Jc - jac_ref(S, th)).max()) / max(1.0, float(np.abs(Jc).max())),
              1e-8, {"S": S.tolist(), "theta": th.tolist()})
        f = lambda x: np.array([math.sin(x[0]) * x[1], x[0] ** 2 + x[1], math.cos(x[1])])
        x0 = np.array([rng.uniform(-1, 1), rng.uniform(-1, 1)])
        Jn = np.asarray(fsr.numericalJacobian(f, x0, 1e-5), dtype=float)
        Ja = np.array([[math.cos(x0[0]) * x0[1], math.sin(x0[0])], [2 * x0[0], 1.0], [0.0, -math.sin(x0[1])]])
        L.log("numericalJacobian = analytic Jacobian", reg, float(np.abs(Jn - Ja).max()), 1e-6, {"x0": x0.tolist()})
    # ---- sphere samplers
    for npts in [1, 2, 3, 10, 97, 500, 2000] + [rng.randint(1, 2000) for _ in range(5)]:
        fs = np.asarray(fsr.fiboSphere(npts), dtype=float)
        L.log("fiboSphere returns unit vectors", "samplers", float(np.abs(np.linalg.norm(fs, axis=1) - 1).max()) if fs.size else float("inf"),
              1e-8, {"n": npts})
        L.log("fiboSphere returns the requested count", "samplers", 0.0 if fs.shape == (npts, 3) else float("inf"), 1.0, {"n": npts})
        # every call returns unit vectors - also the call after a caller scaled the previous result in place
        first = fsr.fiboSphere(npts)
        if isinstance(first, np.ndarray) and first.size and first.flags.writeable:
            first *= 3.5
            again = np.asarray(fsr.fiboSphere(npts), dtype=float)
            L.log("fiboSphere returns unit vectors", "samplers|repeated", float(np.abs(np.linalg.norm(again, axis=1) - 1).max()), 1e-8, {"n": npts})
        firstu = fsr.unitSphere(npts)
        if isinstance(firstu, np.ndarray) and firstu.size and firstu.flags.writeable:
            firstu *= 3.5
            againu = np.asarray(fsr.unitSphere(npts), dtype=float)
            L.log("unitSphere returns unit vectors", "samplers|repeated", float(np.abs(np.linalg.norm(againu, axis=1) - 1).max()), 1e-8, {"n": npts})
        us = np.asarray(fsr.unitSphere(npts), dtype=float)
        L.log("unitSphere returns unit vectors", "samplers", float(np.abs(np.linalg.norm(us, axis=1) - 1).max()) if us.size else float("inf"),
              1e-8, {"n": npts})
    # ---- angle wrapping: congruent modulo 2 pi, for every form
    for _ in range(max(20, n // 4)):
        ang = rng.uniform(-50, 50)
        case = {"angle": ang}
        out = float(fsr.angleMod(ang))
        L.log("angleMod(scalar) congruent mod 2pi", "wrap|scalar", cong(out, ang), 1e-8, case)
        arr = np.array([rng.uniform(-50, 50) for _ in range(rng.choice([1, 2, 3, 4, 5, 7]))])
        out = np.asarray(fsr.angleMod(arr.copy()), dtype=float).reshape(-1)
        L.log("angleMod(array) congruent mod 2pi", "wrap|array", max(cong(o, i) for o, i in zip(out, arr)), 1e-8, {"a": arr.tolist()})
        v6 = np.array([rng.uniform(-50, 50) for _ in range(6)])
        out6 = np.asarray(fsr.angleMod(v6.copy()), dtype=float).reshape(-1)
        L.log("angleMod(6-vector) rotation part congruent mod 2pi", "wrap|6-vector", max(cong(o, i) for o, i in zip(out6[3:], v6[3:])), 1e-8,
              {"v": v6.tolist()})
        L.log("angleMod(6-vector) leaves the translation part alone", "wrap|6-vector", float(np.abs(out6[:3] - v6[:3]).max()), 1e-12, {"v": v6.tolist()})
        t = tm(list(v6))
        t.angleMod()
        ot = t.gTAA().reshape(6)
        L.log("tm.angleMod rotation part congruent mod 2pi", "wrap|tm", max(cong(o, i) for o, i in zip(ot[3:], v6[3:])), 1e-8, {"v": v6.tolist()})
        t2 = fsr.angleMod(tm(list(v6)))
        L.log("angleMod(tm) rotation part congruent mod 2pi", "wrap|tm", max(cong(o, i) for o, i in zip(t2.gTAA().reshape(6)[3:], v6[3:])), 1e-8,
              {"v": v6.tolist()})
        o3 = np.asarray(fmr.AngleMod(arr.copy()), dtype=float).reshape(-1)
        L.log("fmr.AngleMod congruent mod 2pi", "wrap|array", max(cong(o, i) for o, i in zip(o3, arr)), 1e-8, {"a": arr.tolist()})
    for law, reg2 in (("angleMod(scalar) congruent mod 2pi", "wrap|scalar"), ("angleMod(array) congruent mod 2pi", "wrap|array"),
                      ("angleMod(6-vector) rotation part congruent mod 2pi", "wrap|6-vector"), ("tm.angleMod rotation part congruent mod 2pi", "wrap|tm"),
                      ("fiboSphere returns unit vectors", "samplers"), ("unitSphere returns unit vectors", "samplers")):
        L.require(law, reg2, 5)
    for law in ("mirror negates only the local z", "mirror is an involution", "plane contains its three points", "interp midpoint: mean position",
                "interp midpoint: rotation geodesically halfway", "lookAt points local z at the target", "distance triangle inequality",
                "arcDistance = norm of the relative pose", "closeLinearGap advances by exactly delta", "closeArcGap advances by exactly delta",
                "IKPath evenly spaced from start to goal", "exp(twistToGoal) * start = goal", "chainJacobian = analytic space Jacobian",
                "numericalJacobian = analytic Jacobian", "rotationFromVector points local z along the vector"):
        L.require(law, reg, max(3, n // 20))
    for law in ("closeLinearGap advances by exactly delta", "closeArcGap advances by exactly delta"):
        L.require(law, "float|close-goal", max(3, n // 20))
    for law in ("lookAt keeps the position", "lookAt is a proper rotation", "lookAt points local z at the target"):
        for r2 in ("float|vertical", "float|near-vertical"):
            L.require(law, r2, max(3, n // 20))


def all_step_counts(L):
    """the quantifier's step counts 2..200, every one of them, on one fixed pair of poses"""
    from basic_robotics.general import tm, fsr
    a, b = tm([1.0, -2.0, 0.5, 0.3, -0.2, 0.4]), tm([-3.0, 1.5, 2.0, -0.6, 0.9, 0.1])
    d6 = b.gTAA().reshape(6) - a.gTAA().reshape(6)
    for N in range(2, 201):
        path = fsr.IKPath(a, b, N)
        L.log("IKPath has the requested number of poses", "steps 2..200", 0.0 if len(path) == N else float("inf"), 1.0, {"N": N, "len": len(path)})
        if len(path) == N:
            pts = np.array([p.gTAA().reshape(6) for p in path])
            want = np.array([a.gTAA().reshape(6) + d6 * i / (N - 1) for i in range(N)])
            L.log("IKPath evenly spaced from start to goal", "steps 2..200", float(np.abs(pts - want).max()) / 10, 1e-8, {"N": N})
        else:
            L.log("IKPath evenly spaced from start to goal", "steps 2..200", float("inf"), 1e-8, {"N": N, "len": len(path)})
    L.require("IKPath has the requested number of poses", "steps 2..200", 199)
    L.require("IKPath evenly spaced from start to goal", "steps 2..200", 199)


def cong(out, inp):
    d = (out - inp) / (2 * PI)
    return abs(d - round(d)) * 2 * PI


def jac_ref(S, th):
    from scipy.linalg import expm
    n = S.shape[1]
    J = np.zeros((6, n))
    T = np.eye(4)
    for i in range(n):
        J[:, i] = rf.adjoint(T) @ S[:, i]
        T = T @ expm(rf.hat6(S[:, i]) * th[i])
    return J


def run(ctx):
    import basic_robotics.general  # noqa: F401
    rng = random.Random(ctx.seed + 18)
    cfg = "SPECIFICATION Spec\nCONSTANTS\n  Frames <- FR\n  Points <- PT\n" + "".join("INVARIANT %s\n" % i for i in LEMMAS + ["Dump"])
    with ctx.timed("tlc"):
        r = tlc.run("HelpersMC", cfg_text=cfg, timeout=1200)
    ctx.add_tlc("helper lemmas on the exact palette", r)
    if not r.ok:
        ctx.model_violation("Helpers", r)
    L = LawLog()
    with ctx.timed("exact"):
        exact_part(L, r.json)
    with ctx.timed("float"):
        float_part(L, rng, ctx.pick(300, 30000))
        all_step_counts(L)
    with ctx.timed("lawtrace"):
        counts = L.decide(ctx, known_tags=["log_near_pi"], tag="c18")
    ctx.sample({"exact_mirror_case": {k: r.json[9][k] for k in ("F", "x", "mirror")}})
    ctx.sample({"event": {"law": L.events[40][0], "case": L.events[40][4]}})
    return ctx.finish({
        "traces_validated_against_impl": len(r.json), "evaluations": len(L.events), "helpers_and_forms": len(counts),
        "distinct_nontrivial": len(set((e[0], e[1], repr(e[4])) for e in L.events)),
        "rule": "exact: every palette frame x point; float: random poses with |p| <= 10 and angle <= pi-1e-3 (frames off the "
                "origin and rotated), steps in (0,1], counts 2..200, sphere sizes 1..2000, angles in [-50,50] as scalar / "
                "array / 6-vector / transform; distinct = distinct (law, arguments)",
    }, assumptions=["relations to 1e-8 (scaled by the |p| <= 10 range), 1e-4 for the optimiser-based rotationFromVector, 1e-6 for the "
                    "finite-difference Jacobian", "geodesic midpoint oracle R1 * exp(log(R1^T R2)/2) from RefEval"])


def replay(ctx, rep):
    print("re-run the check with the same seed; case:", rep["case"])
    return 0
