"""C16 - RRT* builds a collision-free, cost-consistent tree and returns a path in it.

spec/RRTStar.tla      the planner's abstract machine (Reject / Place, structural invariants)
spec/RRTLattice.tla   lattice instance explored exhaustively by TLC (all sample sequences, all
                      tie-breaking answers of the spatial index); exports its sample sequences
spec/RRTStarTrace.tla validates executions recorded from the real planner
Binding: (a) every TLC sample sequence is fed to the real generalGenerateTree through a scripted
generator with the lattice callbacks, the run is recorded at its public seams and TLC decides
whether it is a behaviour of the spec; (b) real findPath runs with random seeds, obstructions,
bounds, budgets, distance modes and neighbour limits are recorded and validated the same way.
"""
import contextlib
import io
import random
from fractions import Fraction

import numpy as np

from vf import tlc, trace as vtrace
from vf.par import pmap

LEVEL = "model_checking"
UNIT = 1e-4          # cost/distance unit of recorded float runs


class ScriptExhausted(Exception):
    pass


# ------------------------------------------------------------------ recording a real run
class Recorder:
    """Wraps the public seams of one RRTStar instance and projects a run to trace events."""

    def __init__(self, rrt, dist, coll, unit, iterations):
        self.rrt, self.dist, self.coll, self.unit = rrt, dist, coll, unit
        self.iterations = iterations
        self.nodes = []          # positions (6-vectors) in insertion order
        self.node_tm = []
        self.index = {}
        self.ev = []
        self.cur = None          # current sample: dict(pos, nn_calls=[...])
        g = rrt.r6_tree_graph
        for it in g.getAll():    # the root placed by the constructor
            self._add(it.object.getPosition())
        self._nn, self._place = g.nearestNeighbors, g.place
        g.nearestNeighbors = self.nearest
        g.place = self.place

    def _key(self, t):
        return tuple(np.round(np.asarray(t.gTAA(), dtype=float).flatten(), 9))

    def _add(self, t):
        self.index[self._key(t)] = len(self.nodes) + 1
        self.nodes.append(np.asarray(t.gTAA(), dtype=float).flatten())
        self.node_tm.append(t)

    def idx(self, t):
        return self.index.get(self._key(t), 0)

    def q(self, x):
        return int(round(float(np.asarray(x, dtype=float).reshape(-1)[0]) / self.unit))

    # -- seams
    def sample(self, node):
        """called by the harness-owned generator with the node it is about to hand out"""
        self.flush_reject()
        self.cur = {"node": node, "nn": []}

    def nearest(self, node, n):
        res = self._nn(node, n)
        if self.cur is not None and node is self.cur["node"]:
            self.cur["nn"].append([self.idx(it.object.getPosition()) for it in res])
        return res

    def brute(self, p6):
        e = np.array([float(np.sum((p6 - q) ** 2)) for q in self.nodes])
        return e

    def first_class(self, e):
        m = e.min()
        return [int(j) + 1 for j in np.nonzero(e <= m + 1e-9 * (1 + m))[0]]

    def flush_reject(self):
        c = self.cur
        if c is None:
            return
        p = c["node"].getPosition()
        e = self.brute(np.asarray(p.gTAA(), dtype=float).flatten())
        n0 = c["nn"][0][0] if c["nn"] and c["nn"][0] else 0
        ev = {"ev": "Reject", "n0": n0, "first": self.first_class(e)}
        if n0:
            ev["d"] = self.q(self.dist(p, self.node_tm[n0 - 1]))
            ev["coll"] = 1 if self.coll(c["node"], _Node(self.node_tm[n0 - 1])) else 0
        else:
            ev["d"], ev["coll"] = 0, 0
        self.ev.append(ev)
        self.cur = None

    def place(self, node):
        c = self.cur
        if c is None or node is not c["node"]:
            self.ev.append({"ev": "Raise", "msg": "place() of a node the generator did not just produce"})
            return self._place(node)
        p = node.getPosition()
        p6 = np.asarray(p.gTAA(), dtype=float).flatten()
        e = self.brute(p6)
        n_now = len(self.nodes)
        k = int(self.rrt.nearest_neighbors_limit)
        need = min(k, n_now)
        r = np.sort(e)[need - 1]
        eps = 1e-9 * (1 + r)
        closer = [int(j) + 1 for j in np.nonzero(e < r - eps)[0]]
        upto = [int(j) + 1 for j in np.nonzero(e <= r + eps)[0]]
        n0 = c["nn"][0][0] if c["nn"] and c["nn"][0] else 0
        exam = sorted(set(c["nn"][1])) if len(c["nn"]) > 1 else []
        ids = sorted(set(exam) | ({n0} if n0 else set()))
        ids = [j for j in ids if j]
        d = [self.q(self.dist(p, self.node_tm[j - 1])) for j in ids]
        cl = [1 if self.coll(node, _Node(self.node_tm[j - 1])) else 0 for j in ids]
        par = node.getParent()
        self.ev.append({"ev": "Place", "n0": n0, "first": self.first_class(e), "exam": exam, "closer": closer,
                        "upto": upto, "need": need, "ids": ids, "d": d, "c": cl,
                        "parent": self.idx(par.getPosition()) if par is not None else 0,
                        "cost": self.q(node.getCost())})
        self.cur = None
        out = self._place(node)
        self._add(p)
        return out

    def final(self):
        self.flush_reject()
        items = self.rrt.r6_tree_graph.getAll()
        got = {}
        for it in items:
            o = it.object
            par = o.getParent()
            got.setdefault(self.idx(o.getPosition()), []).append(
                [self.idx(par.getPosition()) if par is not None else 0, self.q(o.getCost())])
        nodes = []
        for i in range(1, max(len(self.nodes), len(items)) + 1):
            v = got.get(i, [[-1, -1]])
            nodes.append(v[0] if len(v) == 1 else [-2, -2])      # -1 missing, -2 duplicated
        self.ev.append({"ev": "Final", "nodes": nodes, "iterations": self.iterations})

    def path(self, poses, goal):
        ids = [self.idx(t) for t in poses[:-1]]
        e = self.brute(np.asarray(goal.gTAA(), dtype=float).flatten())
        last_is_goal = 1 if poses and self._key(poses[-1]) == self._key(goal) else 0
        self.ev.append({"ev": "Path", "path": ids, "nn": ids[-1] if ids else 0, "first": self.first_class(e),
                        "goalLast": last_is_goal})


class _Node:
    """minimal node for harness-side callback evaluation"""

    def __init__(self, t):
        self.t = t

    def getPosition(self):
        return self.t


# ------------------------------------------------------------------ lattice runs (spec -> code)
LATTICE = {
    "Wall": [[[1, 0, 0], [1, 2, 1]]],
    "TwoBoxes": [[[1, 1, 0], [1, 1, 3]], [[2, 0, 0], [3, 0, 0]]],
    "NoBoxes": [],
}


def slab_hits(a, b, box):
    lo_t, hi_t = Fraction(0), Fraction(1)
    for i in range(3):
        d = b[i] - a[i]
        if d == 0:
            if not (box[0][i] <= a[i] <= box[1][i]):
                return False
            continue
        t1, t2 = Fraction(box[0][i] - a[i], d), Fraction(box[1][i] - a[i], d)
        lo_t, hi_t = max(lo_t, min(t1, t2)), min(hi_t, max(t1, t2))
    return lo_t <= hi_t


def ipos(t):
    v = np.asarray(t.gTAA(), dtype=float).flatten()
    return [int(round(x)) for x in v[:3]]


def lattice_run(job):
    """Feed one TLC sample sequence to the real planner; return the recorded trace."""
    tid, samples, boxes, knn, mind, maxd, iters, goal = job
    from basic_robotics.path_planning.pathplanner import RRTStar, PathNode
    from basic_robotics.general import tm
    rrt = RRTStar(tm([0, 0, 0, 0, 0, 0]))
    rrt.iterations = iters
    rrt.nearest_neighbors_limit = knn
    rrt.minimum_distance = mind
    rrt.maximum_distance = maxd

    def dist(p, q):
        a, b = ipos(p), ipos(q)
        return 3 * abs(a[0] - b[0]) + abs(a[1] - b[1]) + 2 * abs(a[2] - b[2])     # the spec's anisotropic metric

    def coll(n1, n2):
        a, b = ipos(n1.getPosition()), ipos(n2.getPosition())
        return any(slab_hits(a, b, bx) for bx in boxes)

    rec = Recorder(rrt, dist, coll, 1, iters)
    # The scripted samples come from one TLC behaviour.  Where the spatial index breaks a distance tie
    # differently from that behaviour, the planner may accept/reject differently and so consume fewer or
    # more samples: that is not an error.  After the script, a fixed fallback sequence keeps the run going.
    fallback = [[x, y, z] for z in (0, 1) for y in range(4) for x in range(4)]
    it = iter(list(samples) + fallback * 50)
    used = [0]

    def gen():
        try:
            p = next(it)
        except StopIteration:
            raise ScriptExhausted()
        used[0] += 1
        n = PathNode(tm([p[0], p[1], p[2], 0, 0, 0]))
        rec.sample(n)
        return n
    g = tm([goal[0], goal[1], goal[2], 0, 0, 0])
    try:
        with contextlib.redirect_stdout(io.StringIO()):
            poses = rrt.findPathGeneral(lambda: rrt.generalGenerateTree(gen, dist, coll), g)
        rec.final()
        rec.path(poses, g)
    except ScriptExhausted:
        rec.cur = None
        rec.ev.append({"ev": "Raise", "msg": "planner did not finish within %d samples" % used[0]})
    except Exception as e:  # the property: every run returns normally
        rec.cur = None
        rec.ev.append({"ev": "Raise", "msg": "%s: %s" % (type(e).__name__, e)})
    return {"id": tid, "ev": rec.ev, "samples": samples}


# ------------------------------------------------------------------ real runs (code -> spec)
def real_run(job):
    tid, seed = job
    from basic_robotics.path_planning.pathplanner import RRTStar
    from basic_robotics.general import tm
    rng = random.Random(seed)
    random.seed(seed)
    np.random.seed(seed % (2 ** 31))
    origin = tm([rng.uniform(-2, 2), rng.uniform(-2, 2), rng.uniform(0, 2), 0, 0, rng.uniform(-1, 1)])
    rrt = RRTStar(origin)
    budgets = [1, 2, 3, 5, 8, 13, 30, 60, 100, 200, 400]
    iters = budgets[tid % len(budgets)] if tid % 3 else rng.randint(1, 60)
    rrt.iterations = iters
    rrt.nearest_neighbors_limit = rng.randint(1, 20)
    rrt.dmode = rng.choice([0, 1])
    half = rng.choice([3.0, 6.0, 10.0])
    rrt.bounds = [[-half, half], [-half, half], [-0.5, half]] + [[-a, a] for a in (rng.choice([0.0, 0.5, 3.0]),) * 3]
    rrt.minimum_distance, rrt.maximum_distance = rng.choice([(0.05, 2.0), (0.1, 5.0), (0.5, 100.0), (0.1, 100.0)])
    layout = rng.choice(["none", "boxes", "boxes", "terrain"])
    if layout == "boxes":
        for _ in range(rng.randint(1, 12)):
            c = [rng.uniform(-half, half) for _ in range(3)]
            s = [rng.uniform(0.1, half / 3) for _ in range(3)]
            lo, hi = [c[i] - s[i] for i in range(3)], [c[i] + s[i] for i in range(3)]
            if not all(lo[i] - 0.2 <= origin[i] <= hi[i] + 0.2 for i in range(3)):   # keep the start free
                rrt.addObstruction(lo, hi)
    elif layout == "terrain":
        rrt.generateTerrain(2 * half, 2 * half, half / 2, half / 2, 0.8, -half, -half)
        rrt.obstructions = [o for o in rrt.obstructions
                            if not all(float(o[0][i]) - 0.2 <= float(origin[i]) <= float(o[1][i]) + 0.2 for i in range(3))]
    goal = tm([rng.uniform(-half, half), rng.uniform(-half, half), rng.uniform(0, half), 0, 0, 0])
    dist0, obs0, rp0 = rrt.distance, rrt.obstruction, rrt.randomPos
    custom = (tid % 2 == 0)          # every other run goes through the general entry point with the caller's own metric
    if custom:
        wx, wy, wz = rng.choice([(4.0, 1.0, 1.0), (1.0, 3.0, 0.5), (2.0, 2.0, 5.0)])

        def dist_c(p, q):
            return float(wx * abs(p[0] - q[0]) + wy * abs(p[1] - q[1]) + wz * abs(p[2] - q[2]))
        rrt.maximum_distance = rrt.maximum_distance * max(wx, wy, wz)
    else:
        dist_c = lambda p, q: dist0(p, q)
    rec = Recorder(rrt, dist_c, lambda a, b: obs0(a, b), UNIT, iters)

    def rp():
        n = rp0()
        rec.sample(n)
        return n
    rrt.randomPos = rp
    try:
        with contextlib.redirect_stdout(io.StringIO()):
            if custom:
                poses = rrt.findPathGeneral(lambda: rrt.generalGenerateTree(rp, dist_c, lambda a, b: obs0(a, b)), goal)
            else:
                poses = rrt.findPath(goal)
        rec.final()
        rec.path(poses, goal)
    except Exception as e:
        rec.cur = None
        rec.ev.append({"ev": "Raise", "msg": "%s: %s" % (type(e).__name__, e)})
    meta = {"seed": seed, "iterations": iters, "knn": rrt.nearest_neighbors_limit, "dmode": rrt.dmode,
            "layout": layout, "boxes": len(rrt.obstructions), "min": rrt.minimum_distance, "max": rrt.maximum_distance,
            "entry": "findPathGeneral+custom metric" if custom else "findPath"}
    return {"id": tid, "ev": rec.ev, "meta": meta}


def trace_cfg(mind, maxd, tol):
    return ("SPECIFICATION TSpec\nCONSTANTS\n  MinD = %d\n  MaxD = %d\n  Tol = %d\n"
            "INVARIANT Accept\nINVARIANT Rooted\nINVARIANT Acyclic\nINVARIANT AcceptedInRange\n" % (mind, maxd, tol))


def report_rejected(ctx, traces, acc, cfg, kind, extra):
    bad = [t for t in traces if t["id"] not in acc]
    for t in bad[:4]:
        k, _ = vtrace.first_unmatched("RRTStarTrace", cfg, {"id": t["id"], "ev": t["ev"]})
        ev = t["ev"][k] if k < len(t["ev"]) else None
        clause = "raises" if ev and ev["ev"] == "Raise" else (ev["ev"].lower() + "_not_a_spec_step" if ev else "?")
        tags = []
        if ev and ev["ev"] == "Raise" and "ZeroDivisionError" in ev.get("msg", "") and extra(t).get("iterations") == 1:
            tags.append("iterations_1_progressbar")
        ctx.violation("trace_rejected:" + clause, {"kind": kind, "run": extra(t), "event_index": k},
                      expected="event %d is a step of RRTStar" % (k + 1), observed=ev, tags=tags)
    ctx.violations += max(0, len(bad) - 4)
    return len(bad)


MODELS = [  # name, Pts, Boxes, KNN, MinD, MaxD, Iter
    ("plane-wall-k2", "Pts332", "Wall", 2, 1, 6, 3),
    ("plane-twoboxes-k3", "Pts332", "TwoBoxes", 3, 1, 7, 3),
    ("layers-nobox-k1", "Pts222", "NoBoxes", 1, 1, 4, 3),
]
MODELS_THOROUGH = [
    ("plane-wall-k2-i4", "Pts332", "Wall", 2, 1, 6, 4),
    ("layers-twoboxes-k2-i3", "Pts222", "TwoBoxes", 2, 1, 6, 3),     # (i4: 1.7 M behaviours, the invariant run needs > 50 min)
    ("cube-wall-k3-i2", "Pts333", "Wall", 3, 1, 7, 2),               # (i3: 3.4 M behaviours)
]


def lattice_cfg(pts, boxes, knn, mind, maxd, it, mode):
    s = ("SPECIFICATION Spec\nCONSTANTS\n  K = 1\n  MinD = %d\n  MaxD = %d\n  Tol = 0\n  Pts <- %s\n  Root <- Root0\n"
         "  Boxes <- %s\n  KNN = %d\n  Iter = %d\n  MaxRej = %d\n" % (mind, maxd, pts, boxes, knn, it,
                                                                      2 if mode == "mc" else 1))
    if mode == "mc":
        s += ("VIEW View\nINVARIANT Rooted\nINVARIANT Acyclic\nINVARIANT AcceptedInRange\nINVARIANT ChainReachesRoot\n"
              "INVARIANT CostConsistent\nINVARIANT EdgesFree\nINVARIANT OneNodePerIteration\nINVARIANT DistinctPositions\n"
              "INVARIANT PathInTree\nPROPERTY CheapestParent\n")
    else:
        s += "INVARIANT Dump\n"
    return s


def run(ctx):
    import basic_robotics.path_planning.pathplanner  # noqa: F401
    rng = random.Random(ctx.seed + 16)
    models = (MODELS[:2] if ctx.quick else MODELS + MODELS_THOROUGH)
    n_seq = n_acc = n_lat = 0
    cap = ctx.pick(2500, 60000)
    for name, pts, boxes, knn, mind, maxd, it in models:
        with ctx.timed("model-" + name):
            r = tlc.run("RRTLatticeMC", cfg_text=lattice_cfg(pts, boxes, knn, mind, maxd, it + 1, "mc"), timeout=3000)
        ctx.add_tlc("model-" + name, r)
        if not r.ok:
            ctx.model_violation("RRTLattice " + name, r)
        with ctx.timed("gen-" + name):
            g = tlc.run("RRTLatticeMC", cfg_text=lattice_cfg(pts, boxes, knn, mind, maxd, it, "gen"), timeout=3000,
                        heap="8g")
        ctx.add_tlc("gen-" + name, g)
        seqs = sorted(set(tuple((tuple(s["p"]), s["acc"]) for s in b["h"]) for b in g.json))
        if not seqs:
            ctx.machinery("no sample sequences exported by " + name)
        n_seq += len(seqs)
        if len(seqs) > cap:
            seqs = rng.sample(seqs, cap)
        goals = [(3, 3, 0), (0, 2, 1), (2, 1, 0)]
        jobs = [(i + 1, [list(p) for p, _ in s], LATTICE[boxes], knn, mind, maxd, it, goals[i % 3])
                for i, s in enumerate(seqs)]
        with ctx.timed("replay-" + name):
            traces = pmap(lattice_run, jobs, chunksize=50)
        cfg = trace_cfg(mind, maxd, 0)
        with ctx.timed("validate-" + name):
            acc, _ = vtrace.validate(ctx, "RRTStarTrace", cfg, [{"id": t["id"], "ev": t["ev"]} for t in traces],
                                     "c16-" + name)
        n_lat += len(traces)
        n_acc += len(acc)
        report_rejected(ctx, traces, acc, cfg, "lattice", lambda t, _m=(name, boxes, knn, mind, maxd, it): {
            "model": _m[0], "boxes": LATTICE[_m[1]], "knn": _m[2], "min": _m[3], "max": _m[4], "iterations": _m[5],
            "samples": t["samples"]})
        if len(ctx.samples) < 2:
            t = traces[len(traces) // 2]
            ctx.sample({"model": name, "samples": t["samples"], "events": t["ev"][:4]})
    # ---- real planner runs
    n_real = ctx.pick(60, 3000)
    jobs = [(i + 1, ctx.seed * 100003 + i) for i in range(n_real)]
    with ctx.timed("real-runs"):
        rtr = pmap(real_run, jobs, chunksize=2)
    cfgs = {}
    for t in rtr:
        key = (int(round(t["meta"]["min"] / UNIT)), int(round(t["meta"]["max"] / UNIT)))
        cfgs.setdefault(key, []).append(t)
    real_acc = 0
    places = sum(1 for t in rtr for e in t["ev"] if e["ev"] == "Place")
    rejects = sum(1 for t in rtr for e in t["ev"] if e["ev"] == "Reject")
    with ctx.timed("validate-real"):
        for (mn, mx), ts in sorted(cfgs.items()):
            cfg = trace_cfg(mn, mx, 3)
            acc, _ = vtrace.validate(ctx, "RRTStarTrace", cfg, [{"id": t["id"], "ev": t["ev"]} for t in ts],
                                     "c16-real-%d-%d" % (mn, mx), timeout=3000, heap="8g")
            real_acc += len(acc)
            report_rejected(ctx, ts, acc, cfg, "real", lambda t: t["meta"])
    ctx.sample({"real_run": rtr[0]["meta"], "events": rtr[0]["ev"][:3]})
    nontriv = sum(1 for t in rtr if sum(1 for e in t["ev"] if e["ev"] == "Place") >= 2)
    return ctx.finish({
        "traces_validated_against_impl": n_lat + len(rtr), "accepted": n_acc + real_acc,
        "lattice_sample_sequences_generated_by_tlc": n_seq, "lattice_runs_of_real_planner": n_lat,
        "real_findPath_runs": len(rtr), "real_place_events": places, "real_reject_events": rejects,
        "evaluations": n_lat + len(rtr), "distinct_nontrivial": n_lat + nontriv,
        "rule": "lattice: every distinct sample sequence (accepted and rejected samples) TLC reaches within the "
                "iteration budget, each run on the real planner (sampled down to the cap when larger); real: "
                "findPath with distinct seeds; non-trivial = at least two insertions",
    }, assumptions=["rtree answers are taken as inputs and checked against a brute-force search (n0 in nearest "
                    "class, examined set between 'strictly closer' and 'up to the k-th distance')",
                    "costs of float runs are compared in units of 1e-4 with slack 3",
                    "node identity is by pose value (the spatial index stores pickled copies)"])


def replay(ctx, rep):
    c = rep["case"]
    if c["kind"] == "lattice":
        m = c["run"]
        t = lattice_run((1, m["samples"], m["boxes"], m["knn"], m["min"], m["max"], m["iterations"], (3, 3, 0)))
        cfg = trace_cfg(m["min"], m["max"], 0)
    else:
        t = real_run((1, c["run"]["seed"]))
        cfg = trace_cfg(int(round(c["run"]["min"] / UNIT)), int(round(c["run"]["max"] / UNIT)), 3)
        print("note: real runs are re-derived from the seed; budget/id coupling may differ from the original id")
    acc, _ = vtrace.validate(ctx, "RRTStarTrace", cfg, [{"id": 1, "ev": t["ev"]}], "c16-replay")
    if 1 not in acc:
        k, _ = vtrace.first_unmatched("RRTStarTrace", cfg, {"id": 1, "ev": t["ev"]})
        print("rejected at event", k, t["ev"][k] if k < len(t["ev"]) else None)
        print("VIOLATION property=C16 replay=(replayed)")
        return 1
    print("trace accepted: no longer reproduces")
    return 0
