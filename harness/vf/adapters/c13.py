"""C13 - loading a URDF preserves the kinematics the file describes.

spec/Urdf.tla builds abstract single-chain URDFs joint by joint (every structure to a size,
random larger ones by TLC simulation), checks the structural lemmas and - on the exact palette
(integer xyz, quarter-turn rpy / joint values, coordinate axes) - COMPUTES the tool pose with
QSE3.  Every exported file is written as XML, loaded with loadArmFromURDF and compared: degrees
of freedom, joint order and names, limits, and FK at the exported joint vectors against TLC's
exact poses.  Float variants of the same structures (arbitrary xyz / rpy / unit axes) and the
five bundled files (parsed by an independent XML walker) are compared with RefEval's chain.
"""
import contextlib
import io
import math
import os
import random
import shutil
import xml.etree.ElementTree as ET

import numpy as np

from vf import tlc, refeval as rf
from vf.law import LawLog
from vf.par import pmap
from vf.adapters.c01 import frac_mat

LEVEL = "model_checking"
PI = math.pi
TMPDIR = os.path.join(tlc.CACHE, "urdf")
LIMS = {1: (-3.2, 3.2), 2: (-1.6, 3.2)}
AX = {"x": (1, 0, 0), "y": (0, 1, 0), "z": (0, 0, 1), "-z": (0, 0, -1), "-x": (-1, 0, 0)}
QANG = {0: 0.0, 1: PI / 2, 2: PI, 3: -PI / 2}


def cfg(mj, mm, x, qq, a, omit):
    return ("SPECIFICATION Spec\nCONSTANTS\n  MaxJoints = %d\n  MaxMoving = %d\n  XYZs <- %s\n  Quarter <- %s\n  Axes <- %s\n"
            "  Omit = %s\nINVARIANT DofIsMoving\nINVARIANT ChainRigid\nINVARIANT FoldFixed\nINVARIANT DefaultsExact\n"
            "INVARIANT Dump\n" % (mj, mm, x, qq, a, omit))


def fmt(v):
    return " ".join(repr(float(x)) for x in v)


def write_urdf(path, joints, world, inertial, name="r"):
    """joints: list of dicts(type, xyz|None, rpy|None, has_origin, axis|None, limits|None)"""
    L = ['<?xml version="1.0"?>', '<robot name="%s">' % name]
    n = len(joints)
    lname = lambda i: "world" if (world and i == 0) else "link%d" % i
    for i in range(n + 1):
        if inertial:
            L.append('  <link name="%s"><inertial><origin xyz="0.01 0 0.02" rpy="0 0 0"/><mass value="%g"/>'
                     '<inertia ixx="0.1" ixy="0" ixz="0" iyy="0.1" iyz="0" izz="0.1"/></inertial></link>' % (lname(i), 1.0 + i))
        else:
            L.append('  <link name="%s"/>' % lname(i))
    for i, j in enumerate(joints):
        L.append('  <joint name="%s" type="%s">' % (j["name"], j["type"]))
        L.append('    <parent link="%s"/><child link="%s"/>' % (lname(i), lname(i + 1)))
        if j["has_origin"]:
            at = ""
            if j["xyz"] is not None:
                at += ' xyz="%s"' % fmt(j["xyz"])
            if j["rpy"] is not None:
                at += ' rpy="%s"' % fmt(j["rpy"])
            L.append("    <origin%s/>" % at)
        if j["axis"] is not None and j["type"] != "fixed":
            L.append('    <axis xyz="%s"/>' % fmt(j["axis"]))
        if j["limits"] is not None:
            L.append('    <limit lower="%r" upper="%r" effort="10" velocity="2"/>' % (j["limits"][0], j["limits"][1]))
        L.append("  </joint>")
    L.append("</robot>")
    with open(path, "w") as f:
        f.write("\n".join(L))


def chain_ref(joints, theta):
    """the file's own semantics, by RefEval"""
    T = np.eye(4)
    k = 0
    for j in joints:
        O = np.eye(4)
        xyz = j["xyz"] if (j["has_origin"] and j["xyz"] is not None) else (0, 0, 0)
        rpy = j["rpy"] if (j["has_origin"] and j["rpy"] is not None) else (0, 0, 0)
        O[:3, :3] = rf.rot_exp([0, 0, rpy[2]]) @ rf.rot_exp([0, rpy[1], 0]) @ rf.rot_exp([rpy[0], 0, 0])
        O[:3, 3] = xyz
        T = T @ O
        if j["type"] != "fixed":
            ax = np.array(j["axis"] if j["axis"] is not None else (1, 0, 0), dtype=float)
            R = np.eye(4)
            R[:3, :3] = rf.rot_exp(ax * theta[k])
            T = T @ R
            k += 1
    return T


def near_half_turn(joints, band=1e-3):
    """known finding log_near_pi for the loader: it builds the joint frames as transforms (logarithm of each origin's
    rotation and of the accumulated zero-configuration frames); one of them within `band` of a half turn loses
    ~2e-15/(pi-angle)^2 there, which the 1e-6 comparison sees inside ~1e-4"""
    T = np.eye(3)
    for j in joints:
        rpy = j["rpy"] if (j["has_origin"] and j["rpy"] is not None) else (0, 0, 0)
        O = rf.rot_exp([0, 0, rpy[2]]) @ rf.rot_exp([0, rpy[1], 0]) @ rf.rot_exp([rpy[0], 0, 0])
        T = T @ O
        for M in (O, T):
            a = rf.rot_angle(M)
            if PI - band < a and not np.array_equal(M, M.T):
                return "log_near_pi"
    return ""


def concrete(js, exact=True, rng=None):
    out = []
    for i, j in enumerate(js):
        if exact:
            xyz = [float(v) for v in j["xyz"]] if j["hasXyz"] else None
            rpy = [QANG[v] for v in j["rpy"]] if j["hasRpy"] else None
            axis = None if j["axis"] == "none" else [float(v) for v in AX[j["axis"]]]
            lim = LIMS[j["lim"]] if j["type"] == "revolute" else None
        else:
            xyz = [rng.uniform(-1, 1) for _ in range(3)] if j["hasXyz"] else None
            rpy = [rng.uniform(-PI, PI), rng.uniform(-1.4, 1.4), rng.uniform(-PI, PI)] if j["hasRpy"] else None
            if j["axis"] == "none":
                axis = None
            else:
                a = np.array([rng.gauss(0, 1) for _ in range(3)])
                axis = list(a / np.linalg.norm(a))
            lim = (rng.uniform(-3, -0.2), rng.uniform(0.2, 3)) if j["type"] == "revolute" else None
        out.append({"name": "jnt_%d_%s" % (i + 1, j["type"][:3]), "type": j["type"], "xyz": xyz, "rpy": rpy,
                    "has_origin": bool(j["hasOrigin"]), "axis": axis, "limits": lim})
    return out


def check_file(job):
    """Load one generated file; returns list of (law, region, resid, tol, case)."""
    idx, rec, seed = job
    from basic_robotics.kinematics import loadArmFromURDF
    rng = random.Random(seed)
    ev = []
    os.makedirs(TMPDIR, exist_ok=True)
    for mode in ("exact", "float"):
        js = concrete(rec["joints"], mode == "exact", rng)
        inertial = (idx % 2 == 0)
        path = os.path.join(TMPDIR, "g%d_%d_%s.urdf" % (os.getpid(), idx, mode))
        write_urdf(path, js, rec["world"], inertial)
        moving = [j for j in js if j["type"] != "fixed"]
        shape = "%dmov+%dfix" % (len(moving), len(js) - len(moving))
        omitted = any((not j["has_origin"]) or j["xyz"] is None or j["rpy"] is None or (j["axis"] is None and j["type"] != "fixed")
                      for j in js)
        reg = "%s|%s|%s" % (mode, "omitted-parts" if omitted else "all-parts", "world" if rec["world"] else "noworld")
        case = {"joints": js, "world": rec["world"], "inertial": inertial, "shape": shape}
        try:
            arm = loadArmFromURDF(path)
            if arm is None:
                raise RuntimeError("loader returned None")
        except Exception as e:
            ev.append(("loads", reg, float("inf"), 1.0, dict(case, raised="%s: %s" % (type(e).__name__, e))))
            continue
        finally:
            try:
                os.remove(path)
            except OSError:
                pass
        ev.append(("loads", reg, 0.0, 1.0, case))
        ok_dof = arm.num_dof == len(moving)
        ev.append(("dof", reg, 0.0 if ok_dof else float("inf"), 1.0, case))
        if not ok_dof:
            continue
        names = [j["name"] for j in moving]
        ev.append(("joint order and names", reg, 0.0 if list(arm.joint_names) == names else float("inf"), 1.0,
                   dict(case, got=list(arm.joint_names))))
        lim_err = 0.0
        for k, j in enumerate(moving):
            if j["limits"] is not None:
                lim_err = max(lim_err, abs(float(arm.joint_mins[k]) - j["limits"][0]), abs(float(arm.joint_maxs[k]) - j["limits"][1]))
        ev.append(("limits as written", reg, lim_err, 1e-9, case))
        if mode == "exact":
            for ks, pose in rec["poses"].items():
                kk = [int(x) for x in ks.strip("<>").split(",")]
                th = np.array([QANG[k] for k in kk])
                want = frac_mat(pose)
                got = arm.FK(th.copy()).gTM()
                ev.append(("FK=exact chain", reg, float(np.abs(got - want).max()), 1e-6, dict(case, theta=th.tolist())))
                ev.append(("RefEval=exact chain", reg, float(np.abs(chain_ref(js, th) - want).max()), 1e-9, case))
        else:
            for _ in range(3):
                th = np.array([rng.uniform(*(j["limits"] or (-PI, PI))) for j in moving])
                want = chain_ref(js, th)
                got = arm.FK(th.copy()).gTM()
                ev.append(("FK=file semantics", reg, float(np.abs(got - want).max()), 1e-6, dict(case, theta=th.tolist()),
                           near_half_turn(js) or ("exp_cutoff" if np.any((np.abs(th) > 0) & (np.abs(th) < 1e-6)) else "")))
    return ev


def known_probe(L):
    """Deterministic reproduction of log_near_pi for the loader: one revolute joint whose origin is turned pi - 3e-6 about a
    generic axis (written as rpy angles), tool 1 m out."""
    from basic_robotics.kinematics import loadArmFromURDF
    from scipy.spatial.transform import Rotation as Rot
    R = rf.rot_exp(np.array([0.36, 0.48, 0.8]) * (PI - 3e-6))
    yaw, pitch, roll = Rot.from_matrix(R).as_euler("ZYX")
    js = [{"name": "j1", "type": "revolute", "xyz": [0.3, -0.2, 0.5], "rpy": [float(roll), float(pitch), float(yaw)], "has_origin": True,
           "axis": [0.0, 0.0, 1.0], "limits": [-3.0, 3.0], "parent": "l0", "child": "l1"},
          {"name": "tool", "type": "fixed", "xyz": [1.0, 0.5, -0.7], "rpy": [0.0, 0.0, 0.0], "has_origin": True, "axis": None, "limits": None,
           "parent": "l1", "child": "l2"}]
    os.makedirs(TMPDIR, exist_ok=True)
    path = os.path.join(TMPDIR, "probe_%d.urdf" % os.getpid())
    try:
        write_urdf(path, js, False, False)
        with contextlib.redirect_stdout(io.StringIO()):
            arm = loadArmFromURDF(path)
            th = np.array([0.7])
            got = arm.FK(th.copy()).gTM()
        L.log("FK=file semantics", "probe", float(np.abs(got - chain_ref(js, th)).max()), 1e-6, {"probe": "log_near_pi"}, near_half_turn(js))
        # exp_cutoff: a joint value of 5e-7 rad on an arm whose tool sits 5 m out
        js2 = [dict(js[0], rpy=[0.0, 0.0, 0.0]), dict(js[1], xyz=[5.0, 0.0, 0.0])]
        write_urdf(path, js2, False, False)
        with contextlib.redirect_stdout(io.StringIO()):
            arm = loadArmFromURDF(path)
            th = np.array([5e-7])
            got = arm.FK(th.copy()).gTM()
        L.log("FK=file semantics", "probe", float(np.abs(got - chain_ref(js2, th)).max()), 1e-6, {"probe": "exp_cutoff"}, "exp_cutoff")
    finally:
        try:
            os.remove(path)
        except OSError:
            pass


def check_chunk(jobs):
    out = []
    for j in jobs:
        out.extend(check_file(j))
    return out


# ------------------------------------------------------------------ bundled files: independent XML walker
def walk_urdf(path):
    root = ET.parse(path).getroot()
    joints = {}
    children = {}
    child_links = set()
    for j in root.findall("joint"):
        o = j.find("origin")
        a = j.find("axis")
        lim = j.find("limit")
        rec = {"name": j.get("name"), "type": j.get("type"), "parent": j.find("parent").get("link"),
               "child": j.find("child").get("link"), "has_origin": o is not None,
               "xyz": [float(x) for x in o.get("xyz").split()] if o is not None and o.get("xyz") else None,
               "rpy": [float(x) for x in o.get("rpy").split()] if o is not None and o.get("rpy") else None,
               "axis": [float(x) for x in a.get("xyz").split()] if a is not None else None,
               "limits": (float(lim.get("lower")), float(lim.get("upper"))) if lim is not None and lim.get("lower") else None}
        joints[rec["name"]] = rec
        children.setdefault(rec["parent"], []).append(rec)
        child_links.add(rec["child"])
    links = [l.get("name") for l in root.findall("link")]
    roots = [l for l in links if l not in child_links]
    # all root-to-leaf joint paths
    paths = []

    def dfs(link, acc):
        kids = children.get(link, [])
        if not kids:
            paths.append(acc)
        for k in kids:
            dfs(k["child"], acc + [k])
    dfs(roots[0], [])
    return paths


def bundled(L, rng):
    from vf import zoo
    from basic_robotics.kinematics import loadArmFromURDF
    for rel in zoo.URDFS:
        path = os.path.join(zoo.URDF_DIR, rel)
        arm = loadArmFromURDF(path)
        paths = walk_urdf(path)
        n = arm.num_dof
        # candidate chains: those with the maximal number of moving joints
        mv = lambda p: [j for j in p if j["type"] in ("revolute", "continuous")]
        best = max(len(mv(p)) for p in paths)
        cands = [p for p in paths if len(mv(p)) == best]
        case = {"file": rel}
        L.log("dof", "bundled", 0.0 if n == best else float("inf"), 1.0, case)
        names_ok = any(list(arm.joint_names) == [j["name"] for j in mv(p)] for p in cands)
        L.log("joint order and names", "bundled", 0.0 if names_ok else float("inf"), 1.0, case)
        p0 = cands[0]
        lim_err = 0.0
        for k, j in enumerate(mv(p0)):
            if j["limits"] is not None and j["type"] == "revolute":
                lim_err = max(lim_err, abs(float(arm.joint_mins[k]) - j["limits"][0]), abs(float(arm.joint_maxs[k]) - j["limits"][1]))
        L.log("limits as written", "bundled", lim_err, 1e-9, case)
        for _ in range(5):
            th = np.array([rng.uniform(*(j["limits"] if (j["limits"] and j["type"] == "revolute") else (-PI, PI))) for j in mv(p0)])
            got = arm.FK(th.copy()).gTM()
            # the tool frame is the end of one of the maximal chains, or any link frame after the last moving joint
            errs = []
            for p in cands:
                last = max(i for i, j in enumerate(p) if j["type"] != "fixed")
                for cut in range(last + 1, len(p) + 1):
                    errs.append(float(np.abs(got - chain_ref(p[:cut], th)).max()))
            L.log("FK=file semantics", "bundled", min(errs), 1e-6, dict(case, theta=th.tolist()))
    L.require("FK=file semantics", "bundled", 25)


def run(ctx):
    import basic_robotics.kinematics  # noqa: F401
    rng = random.Random(ctx.seed + 13)
    shutil.rmtree(TMPDIR, ignore_errors=True)
    recs = []
    with ctx.timed("tlc"):
        if ctx.quick:
            plans = [("exhaustive-1-joint", cfg(1, 1, "X3", "Q3", "A5", "TRUE"), None),
                     ("exhaustive-2-joints-small", cfg(2, 2, "X1", "Q2", "A2", "TRUE"), None),
                     ("simulate-to-12-joints", cfg(12, 8, "X3", "Q3", "A5", "TRUE"), 120)]
        else:
            plans = [("exhaustive-2-joints", cfg(2, 2, "X2", "Q2", "A3", "TRUE"), None),
                     ("simulate-to-12-joints", cfg(12, 8, "X3", "Q3", "A5", "TRUE"), 3000)]
        for name, c, sim in plans:
            if sim:
                g = tlc.run("UrdfMC", cfg_text=c, simulate="num=%d" % (sim * (4 if ctx.quick else 1)), depth=14, seed=ctx.seed + 1,
                            workers=1 if ctx.quick else 4, timeout=1200)
            else:
                g = tlc.run("UrdfMC", cfg_text=c, timeout=3000, heap="8g")
            ctx.add_tlc(name, g)
            if g.violated or (g.errors and not sim):
                ctx.model_violation("Urdf " + name, g)
            if not g.json:
                ctx.machinery("no files exported by " + name)
            recs.extend(g.json)
    cap = ctx.pick(6000, 400000)
    if len(recs) > cap:
        big = [r for r in recs if len(r["joints"]) > 2]
        small = [r for r in recs if len(r["joints"]) <= 2]
        recs = big + rng.sample(small, max(0, cap - len(big)))
    jobs = [(i, r, ctx.seed * 7919 + i) for i, r in enumerate(recs)]
    chunks = [jobs[i:i + 100] for i in range(0, len(jobs), 100)]
    with ctx.timed("load-and-compare"):
        res = pmap(check_chunk, chunks)
    L = LawLog()
    for out in res:
        for e in out:
            L.log(*e)                   # (law, region, residual, tolerance, case[, known-finding class])
    known_probe(L)
    with ctx.timed("bundled"):
        bundled(L, rng)
    for reg in ("exact|omitted-parts|world", "exact|omitted-parts|noworld", "exact|all-parts|noworld", "float|omitted-parts|world",
                "float|all-parts|world"):
        L.require("FK=exact chain" if reg.startswith("exact") else "FK=file semantics", reg, 10)
        L.require("loads", reg, 5)
    with ctx.timed("lawtrace"):
        L.decide(ctx, known_tags=["log_near_pi", "exp_cutoff"], tag="c13")
    shapes = sorted(set(e[4].get("shape", "bundled") for e in L.events))
    ctx.sample({"abstract_file": recs[len(recs) // 2]["joints"], "world": recs[len(recs) // 2]["world"],
                "exact_poses": recs[len(recs) // 2]["poses"]})
    shutil.rmtree(TMPDIR, ignore_errors=True)
    return ctx.finish({
        "traces_validated_against_impl": len(recs) * 2 + 5, "evaluations": len(L.events), "generated_structures": len(recs),
        "files_loaded": len(recs) * 2 + 5, "distinct_nontrivial": len(recs), "chain_shapes": shapes[:40],
        "rule": "TLC enumerates every abstract file up to the stated size and simulates larger ones (to 12 joints, 8 "
                "moving); each is written twice (exact palette values, random float values) and loaded; distinct = "
                "distinct abstract files; every file has at least one moving joint (non-trivial)",
    }, assumptions=["exact part: TLC's QSE3 value is the oracle; float part and bundled files: RefEval chain from the XML "
                    "(independent ElementTree walker)", "bundled files with side branches: the tool frame may be the frame "
                    "of any link after the last moving joint of a maximal chain"])


def replay(ctx, rep):
    c = rep["case"]["case"]
    if "joints" not in c:
        print("bundled file case:", c)
        return 0
    from basic_robotics.kinematics import loadArmFromURDF
    os.makedirs(TMPDIR, exist_ok=True)
    path = os.path.join(TMPDIR, "replay.urdf")
    write_urdf(path, c["joints"], c["world"], c["inertial"])
    print(open(path).read())
    try:
        arm = loadArmFromURDF(path)
        th = np.array(c.get("theta", [0.0] * arm.num_dof))
        got = arm.FK(th.copy()).gTM()
        want = chain_ref(c["joints"], th)
        print("max abs difference to the file's semantics:", float(np.abs(got - want).max()))
        if float(np.abs(got - want).max()) > 1e-6:
            print("VIOLATION property=C13 replay=(replayed)")
            return 1
    except Exception as e:
        print("loader raised:", type(e).__name__, e)
        print("VIOLATION property=C13 replay=(replayed)")
        return 1
    return 0
