"""C04 - transform algebra is the SE(3) group; every constructor form means the same pose.

Exact part: spec/GroupLaws.tla (QSE3) - TLC checks associativity, inverse, composition = matrix
product and the localToGlobal/globalToLocal inverse pair exactly on a palette and exports the
exact results of pairs and triples; the real tm objects must produce those matrices.  For every
palette pose the harness derives equivalent descriptions (rotation vector, quaternion, 4x4,
Rx*Ry*Rz angles, nested pair, transform, one-element array) independently of the library and
every documented constructor form must give TLC's exact matrix.
Float part: the same laws on random triples (|p| <= 1e3, angle <= pi - 1e-3), decided by TLC
against LawTrace.tla.
"""
import math
import random

import numpy as np

from vf import tlc, refeval as rf
from vf.law import LawLog
from vf.adapters.c01 import frac_mat, gl_cfg, tf_mat

LEVEL = "model_checking"
TOL = 5e-6
PI = math.pi


def err(a, b, scale=1.0):
    a, b = np.asarray(a, dtype=float), np.asarray(b, dtype=float)
    if a.shape != b.shape or not np.all(np.isfinite(a)):
        return float("inf")
    return float(np.abs(a - b).max()) / max(1.0, scale)


def near_half(*mats):
    """some (intermediate) rotation is within 3e-5 of a half turn: the logarithm behind tm's six-vector is then
    covered by the known finding log_near_pi (float noise makes an exact half turn inexact)"""
    return "log_near_pi" if any(rf.rot_angle(np.asarray(m)[:3, :3]) > PI - 3e-5 for m in mats) else ""


def rotvec_of(q):
    w, v = q[0], np.array(q[1:], dtype=float)
    n = np.linalg.norm(v)
    if n == 0:
        return np.zeros(3)
    ang = 2 * math.atan2(n, abs(w))
    return v / n * ang * (1 if w >= 0 else -1)


def rxyz_angles(R):
    """angles (a, b, c) with R = Rx(a) Ry(b) Rz(c); None near gimbal lock"""
    if abs(R[0, 2]) > 1 - 1e-6:
        return None
    b = math.asin(R[0, 2])
    a = math.atan2(-R[1, 2], R[2, 2])
    cc = math.atan2(-R[0, 1], R[0, 0])
    return a, b, cc


def exact_part(L, singles, pairs, triples):
    from basic_robotics.general import tm, fsr
    for row in singles:
        A = row["A"]
        if row["branch"].startswith("half"):
            continue                      # the quantifier stops at pi - 1e-3
        q = A["q"]
        T = frac_mat(row["mat"])
        p = T[:3, 3]
        rv = rotvec_of(q)
        n = math.sqrt(sum(x * x for x in q))
        quat = [q[1] / n, q[2] / n, q[3] / n, q[0] / n]          # scipy order x, y, z, w
        case = {"q": q, "p": A["p"], "d": A["d"]}
        reg = "exact:" + row["branch"]
        forms = {
            "list6": lambda: tm(list(p) + list(rv)),
            "arr6": lambda: tm(np.array(list(p) + list(rv))),
            "arr6x1": lambda: tm(np.array(list(p) + list(rv)).reshape((6, 1))),
            "pair": lambda: tm([list(p), list(rv)]),
            "list7": lambda: tm(list(p) + quat),
            "arr7": lambda: tm(np.array(list(p) + quat)),
            "mat44": lambda: tm(T.copy()),
            "tmcopy": lambda: tm(tm(T.copy())),
            "arr1tm": lambda: tm(_arr1(tm(T.copy()))),
        }
        ang = rxyz_angles(T[:3, :3])
        if ang is not None:      # the roll-pitch-yaw flag with every form that carries angles
            forms["rpy6"] = lambda: tm(list(p) + list(ang), rpy=True)
            forms["rpy:arr6"] = lambda: tm(np.array(list(p) + list(ang)), rpy=True)
            forms["rpy:arr6x1"] = lambda: tm(np.array(list(p) + list(ang)).reshape((6, 1)), rpy=True)
            forms["rpy:pair"] = lambda: tm([list(p), list(ang)], True)
        for name, f in forms.items():
            try:
                got = f().gTM()
            except Exception as e:
                got = None
                case = dict(case, raised="%s: %s" % (type(e).__name__, e))
            L.log("ctor:" + name, reg, err(got, T) if got is not None else float("inf"), TOL, case)
        # rotation-only forms
        Ro = np.eye(4)
        Ro[:3, :3] = T[:3, :3]
        L.log("ctor:list3", reg, err(tm(list(rv)).gTM(), Ro), TOL, case)
        L.log("ctor:arr3", reg, err(tm(np.array(rv)).gTM(), Ro), TOL, case)
        if ang is not None:
            L.log("ctor:rpy3", reg, err(tm(list(ang), rpy=True).gTM(), Ro), TOL, case)
            L.log("ctor:rpy:arr3", reg, err(tm(np.array(ang), rpy=True).gTM(), Ro), TOL, case)
        t = tm(T.copy())
        t2 = tm(T.copy())
        t2.setQuat(t.getQuat())
        L.log("setQuat(getQuat)", reg, err(t2.gTM(), T), TOL, case)
        L.log("inv=exact", reg, err(t.inv().gTM(), tf_mat(row["inv"])), TOL, case)
        L.log("inv*T=I", reg, err((t.inv() @ t).gTM(), np.eye(4)), TOL, case)
    for row in pairs:
        if row["A"]["q"][0] == 0 or row["B"]["q"][0] == 0:
            continue                      # an operand is a half turn: outside the quantifier (angle <= pi - 1e-3)
        a, b = tm(tf_mat(row["A"])), tm(tf_mat(row["B"]))
        case = {"A": row["A"], "B": row["B"]}
        AB = frac_mat(row["AB"])
        AiB = frac_mat(row["AinvB"])
        L.log("matmul=exact", "exact:pairs", err((a @ b).gTM(), AB), TOL, case)
        L.log("matmul(array)=exact", "exact:pairs", err((a @ b.gTM()).gTM(), AB), TOL, case)
        L.log("mul(tm)=exact", "exact:pairs", err((a * b).gTM(), AB), TOL, case)
        L.log("l2g=exact", "exact:pairs", err(fsr.localToGlobal(a, b).gTM(), AB), TOL, case, near_half(AB))
        L.log("g2l=exact", "exact:pairs", err(fsr.globalToLocal(a, b).gTM(), AiB), TOL, case, near_half(AiB))
        L.log("g2l(l2g)=id", "exact:pairs", err(fsr.globalToLocal(a, fsr.localToGlobal(a, b)).gTM(), b.gTM()), TOL, case,
              near_half(AB))
        L.log("l2g(g2l)=id", "exact:pairs", err(fsr.localToGlobal(a, fsr.globalToLocal(a, b)).gTM(), b.gTM()), TOL, case,
              near_half(AiB))
    for row in triples:
        if 0 in (row["A"]["q"][0], row["B"]["q"][0], row["C"]["q"][0]):
            continue
        a, b, c3 = tm(tf_mat(row["A"])), tm(tf_mat(row["B"])), tm(tf_mat(row["C"]))
        case = {"A": row["A"], "B": row["B"], "C": row["C"]}
        ABC = frac_mat(row["ABC"])
        L.log("assoc-left=exact", "exact:triples", err(((a @ b) @ c3).gTM(), ABC), TOL, case)
        L.log("assoc-right=exact", "exact:triples", err((a @ (b @ c3)).gTM(), ABC), TOL, case)


def _arr1(t):
    arr = np.empty(1, dtype=object)
    arr[0] = t
    return arr


def rand_pose(rng, pscale):
    ax = np.array([rng.gauss(0, 1) for _ in range(3)])
    ax /= np.linalg.norm(ax)
    th = rng.choice([0.0, rng.uniform(0, PI - 1e-3), PI - 1e-3 - rng.uniform(0, 1e-2), 10 ** rng.uniform(-8, -3)])
    p = [rng.uniform(-1, 1) * pscale for _ in range(3)]
    return rf.taa_to_tm(p + list(ax * th))


def float_part(L, rng, n):
    from basic_robotics.general import tm, fsr
    for scale in (1.0, 1e3):
        reg = "float|p<=%g" % scale
        for _ in range(n):
            A, B, C = rand_pose(rng, scale), rand_pose(rng, scale), rand_pose(rng, scale)
            a, b, c3 = tm(A.copy()), tm(B.copy()), tm(C.copy())
            case = {"A": A.tolist(), "B": B.tolist(), "C": C.tolist()}
            s2 = scale
            L.log("matmul=matrix product", reg, err((a @ b).gTM(), A @ B, s2), TOL, case)
            L.log("inv=group inverse", reg, err(a.inv().gTM(), rf.trans_inv(A), s2), TOL, case)
            L.log("assoc", reg, err(((a @ b) @ c3).gTM(), (a @ (b @ c3)).gTM(), s2 * 3), TOL, case)
            L.log("assoc=matrix", reg, err(((a @ b) @ c3).gTM(), A @ B @ C, s2 * 3), TOL, case)
            AiB = rf.trans_inv(A) @ B
            L.log("l2g=ref*rel", reg, err(fsr.localToGlobal(a, b).gTM(), A @ B, s2), TOL, case, near_half(A @ B))
            L.log("g2l=inv(ref)*x", reg, err(fsr.globalToLocal(a, b).gTM(), AiB, s2), TOL, case, near_half(AiB))
            L.log("g2l(l2g)=id", reg, err(fsr.globalToLocal(a, fsr.localToGlobal(a, b)).gTM(), B, s2), TOL, case,
                  near_half(A @ B))
            L.log("l2g(g2l)=id", reg, err(fsr.localToGlobal(a, fsr.globalToLocal(a, b)).gTM(), B, s2), TOL, case,
                  near_half(AiB))
            t2 = tm(A.copy())
            t2.setQuat(a.getQuat())
            L.log("setQuat(getQuat)", reg, err(t2.gTM(), A, s2), TOL, case)
            # another transform / a one-element array of a transform: the same pose, and a transform of its own -
            # re-orienting the new object (setQuat, the in-place writer C04 names) leaves the source's meaning alone
            t3, t4 = tm(a), tm(_arr1(a))
            L.log("ctor:tmcopy", reg, err(t3.gTM(), A, s2), TOL, case)
            L.log("ctor:arr1tm", reg, err(t4.gTM(), A, s2), TOL, case)
            t3.setQuat(b.getQuat())
            t4.setQuat(c3.getQuat())
            AB = A.copy()
            AB[:3, :3] = B[:3, :3]
            L.log("ctor:tmcopy re-oriented", reg, err(t3.gTM(), AB, s2), TOL, case)
            # a re-oriented transform is that pose for everything that follows, also for the frame changes (which read the
            # six-vector, not the matrix)
            L.log("setQuat then l2g=ref*rel", reg, err(fsr.localToGlobal(t3, c3).gTM(), AB @ C, s2), TOL, case, near_half(AB @ C, AB))
            L.log("setQuat then g2l=inv(ref)*x", reg, err(fsr.globalToLocal(t3, c3).gTM(), rf.trans_inv(AB) @ C, s2), TOL, case,
                  near_half(rf.trans_inv(AB) @ C, AB))
            L.log("ctor:tmcopy source keeps its pose", reg, max(err(a.gTM(), A, s2), err((a @ b).gTM(), A @ B, s2),
                                                               err(fsr.localToGlobal(a, b).gTM(), A @ B, s2)), TOL, case, near_half(A @ B))
            # constructor forms from descriptions derived by RefEval
            rv = rf.rot_log(A[:3, :3])
            L.log("ctor:list6", reg, err(tm(list(A[:3, 3]) + list(rv)).gTM(), A, s2), TOL, case)
            L.log("ctor:list7", reg, err(tm(list(A[:3, 3]) + list(rf.rot_to_quat_xyzw(A[:3, :3]))).gTM(), A, s2), TOL, case)
            L.log("ctor:pair", reg, err(tm([list(A[:3, 3]), list(rv)]).gTM(), A, s2), TOL, case)
            ang = rxyz_angles(A[:3, :3])
            if ang is not None:
                L.log("ctor:rpy6", reg, err(tm(list(A[:3, 3]) + list(ang), rpy=True).gTM(), A, s2), TOL, case)
                L.log("ctor:rpy:pair", reg, err(tm([list(A[:3, 3]), list(ang)], True).gTM(), A, s2), TOL, case)
                L.log("ctor:rpy:arr6", reg, err(tm(np.array(list(A[:3, 3]) + list(ang)), rpy=True).gTM(), A, s2), TOL, case)
        for law in ("matmul=matrix product", "inv=group inverse", "assoc", "l2g=ref*rel", "g2l=inv(ref)*x",
                    "g2l(l2g)=id", "ctor:list6", "ctor:list7", "ctor:pair", "ctor:rpy6", "ctor:rpy:pair", "ctor:rpy:arr6", "setQuat(getQuat)", "ctor:tmcopy",
                    "ctor:arr1tm", "ctor:tmcopy re-oriented", "ctor:tmcopy source keeps its pose", "setQuat then l2g=ref*rel",
                    "setQuat then g2l=inv(ref)*x"):
            L.require(law, reg, n // 2)


def run(ctx):
    rng = random.Random(ctx.seed + 4)
    import basic_robotics.general  # noqa: F401
    with ctx.timed("tlc"):
        r1 = tlc.run("GroupLawsMC", cfg_text=gl_cfg(ctx.pick("Q1", "Q2"), "T3", 2, ["Dump1"]), timeout=6000, heap="8g")
        ctx.add_tlc("laws levels 1-2 (singles exported)", r1)
        r2 = tlc.run("GroupLawsMC", cfg_text=gl_cfg(ctx.pick("QSmall", "Q1"), "T2", 3, ["Dump2", "Dump3"]), timeout=6000,
                     heap="8g")
        ctx.add_tlc("laws levels 1-3 (pairs, triples exported)", r2)
    for r in (r1, r2):
        if not r.ok:
            ctx.model_violation("GroupLaws", r)
    singles = [j for j in r1.json if j.get("t") == "T"]
    pairs = [j for j in r2.json if j.get("t") == "P"]
    triples = [j for j in r2.json if j.get("t") == "3"]
    if not (singles and pairs and triples):
        ctx.machinery("empty export: %d singles %d pairs %d triples" % (len(singles), len(pairs), len(triples)))
    if len(pairs) > 6000:
        pairs = rng.sample(pairs, 6000)
    L = LawLog()
    with ctx.timed("exact-replay"):
        exact_part(L, singles, pairs, triples)
    for law in ("matmul=exact", "l2g=exact", "g2l=exact"):
        L.require(law, "exact:pairs", len(pairs) // 3)
    L.require("assoc-left=exact", "exact:triples", len(triples) // 4)
    for f in ("list6", "arr6", "pair", "list7", "mat44", "tmcopy", "arr1tm", "rpy6", "rpy:pair", "rpy:arr6", "list3"):
        L.require("ctor:" + f, "exact:generic", 10)
    n_exact = len(L.events)
    with ctx.timed("float"):
        float_part(L, rng, ctx.pick(600, 100000))
    with ctx.timed("lawtrace"):
        counts = L.decide(ctx, known_tags=["log_near_pi"], tag="c04")
    ctx.sample({"exact_pair": {"A": pairs[0]["A"], "B": pairs[0]["B"], "AB": pairs[0]["AB"]}})
    ctx.sample({"exact_triple": {k: triples[0][k] for k in ("A", "B", "C")}})
    return ctx.finish({
        "traces_validated_against_impl": len(singles) + len(pairs) + len(triples), "evaluations": len(L.events),
        "exact_poses": len(singles), "exact_pairs": len(pairs), "exact_triples": len(triples),
        "exact_law_events": n_exact, "float_law_events": len(L.events) - n_exact, "law_region_blocks": len(counts),
        "distinct_nontrivial": len(set((e[0], e[1], repr(e[4])) for e in L.events)),
        "rule": "exact: every palette pose x constructor form, every pair and triple of the small palette against TLC's "
                "exact matrices; float: random triples with |p| <= 1 and <= 1e3 and angles in [0, pi-1e-3]; distinct = "
                "distinct (law, region, arguments)",
    }, assumptions=["equivalent descriptions (rotation vector, quaternion, Rx*Ry*Rz angles) are derived by the harness from "
                    "the integer quaternion / matrix, not by the library", "5e-6 absolute, relative to |p| scale for |p| up "
                    "to 1e3"])


def replay(ctx, rep):
    print("re-run the check with the same seed; case:", rep["case"])
    return 0
