"""C05 - arm forward kinematics is base * product of exponentials, through any history.

spec/Arm.tla is the bookkeeping machine (base, tool anchoring, knowledge of the joint vector)
that determines which obligations are owed after every public call.  TLC checks its bookkeeping
properties and exports every history to a depth (and simulated long ones); each history is
replayed on every arm of the zoo and after every step the obligations of the spec state are
evaluated with RefEval (base * PoE(home screws, clamp theta) * tool by scipy.linalg.expm).
"""
import random

import numpy as np

from vf import tlc, zoo
from vf.armrun import Runner, group_behaviours
from vf.par import pmap

LEVEL = "model_checking"
PROPS = ("INVARIANT TypeOK\nINVARIANT ToolDetermined\nPROPERTY RestoreGivesOrig\nPROPERTY MoveKeepsJoint\n"
         "PROPERTY FKMakesKnown\nPROPERTY QueriesArePure\n")


def cfg(depth, ops, mode, goals="G1"):
    s = ("SPECIFICATION Spec\nCONSTANTS\n  Bases = {1, 2}\n  Thetas = {1, 2, 3}\n  Tools = {1, 2}\n  Goals <- %s\n"
         "  Ops <- %s\n  MaxDepth = %d\n" % (goals, ops, depth))
    return s + ("VIEW View\n" + PROPS if mode == "mc" else "INVARIANT Dump\n")


def makers(ctx):
    """(name, maker) list: every maker builds a fresh arm + pristine spec + construction base."""
    rng = random.Random(ctx.seed * 7 + 5)
    out = []
    s6 = zoo.spec_6r()
    out.append(("6R@identity", lambda: (zoo.build(s6, np.eye(4)), s6, np.eye(4))))
    b1 = zoo.rand_pose(rng, 2.0)
    out.append(("6R@random-base", lambda: (zoo.build(s6, b1), s6, b1)))
    for n in ((1 + ctx.seed % 2, 3 + ctx.seed % 3, 7) if ctx.quick else (1, 2, 3, 4, 5, 7)):     # quick: a small, a middle and a redundant chain
        sp = zoo.spec_random(rng, n)
        bb = zoo.rand_pose(rng, 1.5)
        out.append(("%s@random-base" % sp["name"], lambda sp=sp, bb=bb: (zoo.build(sp, bb), sp, bb)))
    for rel in ([zoo.URDFS[(1 + ctx.seed) % len(zoo.URDFS)]] if ctx.quick else zoo.URDFS):     # quick: one bundled model, chosen by the seed
        def mk(rel=rel):
            arm, sp = zoo.load_urdf(rel)
            return arm, sp, np.eye(4)
        out.append(("urdf:" + rel, mk))
    return out


_MAKERS = {}
_C06 = False


def run_chunk(job):
    name, seed, groups = job
    out = []
    for g in groups:
        r = Runner(_MAKERS[name], seed, with_c06=_C06)
        v = r.run_group(g)
        if v:
            out.append((name, tuple(v) + (seed, [{k: (x[k] if k != "st" else x[k]) for k in x} for x in g[0]])))
        seed += 1
    return out, len(groups), r.steps if groups else 0


def generate(ctx, plans):
    allg = []
    for name, c, sim in plans:
        with ctx.timed("gen-" + name):
            if sim:
                g = tlc.run("ArmMC", cfg_text=c, simulate="num=%d" % (sim[0] * (4 if ctx.quick else 1)), depth=sim[1] + 1, seed=ctx.seed + 3,
                            workers=1 if ctx.quick else 4,
                            timeout=900)
            else:
                g = tlc.run("ArmMC", cfg_text=c, timeout=3000, heap="8g")
        ctx.add_tlc("gen-" + name, g)
        if g.errors:
            ctx.model_violation("generation " + name, g)
        groups = list(group_behaviours(g.json).values())
        if not groups:
            ctx.machinery("no behaviours exported by " + name)
        allg.append((name, groups))
    return allg


def replay_all(ctx, allg, mk, per_arm_cap=None):
    global _MAKERS
    _MAKERS = dict(mk)
    rng = random.Random(ctx.seed + 55)
    jobs = []
    for name, _ in mk:
        for pname, groups in allg:
            gs = groups if not per_arm_cap or len(groups) <= per_arm_cap else rng.sample(groups, per_arm_cap)
            for i in range(0, len(gs), 40):
                jobs.append((name, ctx.seed * 1000 + i, gs[i:i + 40]))
    res = pmap(run_chunk, jobs)
    n = steps = 0
    for out, k, st in res:
        n += k
        steps += st * k
        for name, (step, clause, exp, obs, ops, rseed, full) in out:
            if clause.startswith("HARNESS"):
                ctx.machinery("%s on %s: %s" % (clause, name, ops))
            tags = [clause.split("|")[1]] if "|" in clause else []
            ctx.violation(clause.split("|")[0], {"arm": name, "ops": ops, "step": step, "runner_seed": rseed, "behaviour": full,
                                                 "with_c06": _C06}, expected=exp, observed=obs, tags=tags)
    return n


def run(ctx):
    import basic_robotics.kinematics  # noqa: F401
    with ctx.timed("model"):
        r = tlc.run("ArmMC", cfg_text=cfg(ctx.pick(4, 5), "AllOps", "mc"), timeout=3000, heap="8g")
    ctx.add_tlc("bookkeeping model", r)
    if not r.ok:
        ctx.model_violation("Arm model", r)
    plans = [("depth2-all", cfg(2, "AllOps", "gen", "G3"), None),
             ("depth3-kinematic-ops", cfg(3, "KinOps", "gen"), None),
             ("simulate-depth10", cfg(10, "AllOps", "gen", "G2"), (ctx.pick(150, 5000), 10))]
    if not ctx.quick:
        plans.append(("depth3-all", cfg(3, "NoIK", "gen"), None))
        plans.append(("depth4-kinematic-ops", cfg(4, "KinOps", "gen"), None))
    from vf import armrun
    armrun.known_probes(ctx)
    allg = generate(ctx, plans)
    mk = makers(ctx)
    with ctx.timed("replay"):
        n = replay_all(ctx, allg, mk, per_arm_cap=ctx.pick(1500, 40000))
    ngroups = sum(len(g) for _, g in allg)
    ctx.sample({"arm": mk[1][0], "ops": [{k: v for k, v in r.items() if k != "st"} for r in allg[1][1][7][0]],
                "spec_state_after_last_step": allg[1][1][7][0][-1]["st"]})
    return ctx.finish({
        "traces_validated_against_impl": n, "evaluations": n, "arms": [m[0] for m in mk],
        "distinct_op_sequences": ngroups, "distinct_nontrivial": ngroups - 1,
        "rule": "TLC enumerates every operation history to the stated depth (plus simulated depth-10 histories); each "
                "distinct op sequence is replayed on every arm of the zoo with fresh random joint vectors, bases and "
                "tool poses; non-trivial = every sequence except the single 'query' one",
    }, assumptions=["RefEval: PoE by scipy.linalg.expm on copies of the constructor data taken before construction "
                    "(URDF arms: screws/home pose read through getScrewList()/FK(0) right after loading)",
                    "poses compared to 1e-7"])


def replay(ctx, rep):
    """re-run the recorded behaviour (one candidate: the first of its group) on a fresh arm with the recorded runner seed"""
    import basic_robotics.kinematics  # noqa: F401
    c = rep["case"]
    if "behaviour" not in c:
        print("replay file has no behaviour; re-run the check with seed", rep.get("seed"))
        return 0
    ctx.seed = rep.get("seed", ctx.seed)
    mk = dict(makers(ctx))
    r = Runner(mk[c["arm"]], c["runner_seed"], with_c06=bool(c.get("with_c06")))
    v = r.run_group([c["behaviour"]])
    print("ops:", [{k: x[k] for k in x if k != "st"} for x in c["behaviour"]])
    print("result:", None if v is None else (v[0], v[1]))
    if v and "|" in v[1] and v[1].split("|")[1] in ctx.known:
        print("KNOWN-FINDING: property=%s %s [%s]" % (ctx.pid, ctx.known[v[1].split("|")[1]]["what"][:200], v[1].split("|")[1]))
        return 0
    if v:
        print("VIOLATION property=%s replay=(replayed)" % ctx.pid)
        return 1
    return 0
