"""C14 - value semantics: operators and queries neither mutate nor alias their operands.

spec/ValueSemantics.tla is a heap model (buffers with versions, ownership): pure operations allocate
fresh result buffers, mutations touch the result's buffers only, default constructors always yield
fresh default content.  TLC checks OperandsUnchanged / NoSharing / DefaultFresh / ReapplySame over
every history  apply ; mutate* ; mutate-a-default ; default ; re-apply  of the operation catalogue and
exports them; each is replayed on the real classes: all operands are fingerprinted (bytes, object
identity and memory extent of every reachable ndarray) before and after every step, result arrays
must share no memory with operand arrays, a default tm / Screw / Wrench constructed afterwards must be
identity / zero, and the re-applied operation must reproduce the first result.
Separate drivers: arrays handed to Arm(...), SP(...), makeSP / newSP and to every ported Modern
Robotics function are fingerprinted around the call.
"""
import contextlib
import io
import math
import random

import numpy as np

from vf import tlc
from vf.par import pmap

LEVEL = "model_checking"
PI = math.pi
CFG = ("SPECIFICATION Spec\nCONSTANTS\n  Families <- Fams\n  OpsOf <- MCOps\n  Routes <- MCRoutes\n  MaxMut = %d\n"
       "INVARIANT OperandsUnchanged\nINVARIANT NoSharing\nINVARIANT DefaultFresh\nINVARIANT ReapplySame\nINVARIANT Dump\n")


def quiet():
    return contextlib.redirect_stdout(io.StringIO())


# ------------------------------------------------------------------ reachable arrays and fingerprints
def arrays_of(x, payload_only=True):
    """numeric payload arrays of an object (frame / position metadata of screws and wrenches excluded)"""
    if isinstance(x, np.ndarray):
        return [x] if x.dtype != object else []
    if hasattr(x, "TM") and hasattr(x, "TAA"):
        return [x.TM, x.TAA]
    if hasattr(x, "data") and hasattr(x, "frame_applied"):
        return [x.data]
    if isinstance(x, (list, tuple)):
        out = []
        for y in x:
            out.extend(arrays_of(y))
        return out
    return []


def fingerprint(x):
    return [(a.tobytes(), id(a), a.shape, a.__array_interface__["data"][0], a.strides) for a in arrays_of(x)]


def same_fp(a, b):
    return len(a) == len(b) and all(p[0] == q[0] and p[1] == q[1] and p[2] == q[2] and p[3] == q[3] for p, q in zip(a, b))


def shares(x, operands):
    for a in arrays_of(x):
        for o in operands:
            for b in arrays_of(o):
                if np.shares_memory(a, b):
                    return True
    return False


def values(x):
    return [np.array(a, dtype=float, copy=True) for a in arrays_of(x)] if arrays_of(x) else (
        [np.array([float(x)])] if isinstance(x, (int, float, np.floating, bool, np.bool_)) else [])


def mutate(x, route):
    """in-place writes through the requested routes; returns number of writes"""
    n = 0
    if route in ("setitem", "both"):
        try:
            if hasattr(x, "__setitem__") and not isinstance(x, (list, tuple, np.ndarray)):
                x[0] = 99.5
                n += 1
        except Exception:
            pass
    if route in ("arrays", "both"):
        for a in arrays_of(x):
            if a.size and a.flags.writeable:
                a.reshape(-1)[...] = a.reshape(-1) * 0 + 77.25 if not a.flags.c_contiguous else 0
                a.flat[0] = 77.25
                a.flat[a.size - 1] = -31.5
                n += 1
    return n


# ------------------------------------------------------------------ operand factories and the op catalogue
def operands(fam, rng, variant=0):
    """variant 1: the degenerate pair - two transforms at the same position (different orientation), two screws / wrenches
    in equal (not identical) frames: the branches binary helpers keep for coincident inputs run on tracked operands"""
    from basic_robotics.general import tm, Screw, Wrench
    v = lambda s=2.0: [rng.uniform(-s, s) for _ in range(6)]
    if fam == "tm":
        a6, b6 = v(), v()
        if variant == 1:
            b6[:3] = a6[:3]
        return tm(a6), tm(b6)
    f1 = v(1.0)
    F1, F2 = tm(f1), tm(list(f1) if variant == 1 else v(1.0))
    if fam == "screw":
        return Screw(np.array(v()).reshape((6, 1)), F1), Screw(np.array(v()).reshape((6, 1)), F2)
    return Wrench(np.array(v()).reshape((6, 1)), None, F1), Wrench(np.array(v()).reshape((6, 1)), None, F2)


def _arr1(t):
    arr = np.empty(1, dtype=object)
    arr[0] = t
    return arr


def catalogue():
    from basic_robotics.general import tm, fsr
    A6 = np.array([0.3, -0.2, 0.5, 0.1, 0.2, -0.3])
    T = {
        "add": lambda a, b: a + b, "sub": lambda a, b: a - b, "matmul": lambda a, b: a @ b, "mul_tm": lambda a, b: a * b,
        "floordiv_tm": lambda a, b: a // b, "l2g": lambda a, b: fsr.localToGlobal(a, b), "g2l": lambda a, b: fsr.globalToLocal(a, b),
        "distance": lambda a, b: fsr.distance(a, b), "arcDistance": lambda a, b: fsr.arcDistance(a, b),
        "tmAvgMidpoint": lambda a, b: fsr.tmAvgMidpoint(a, b), "tmInterpMidpoint": lambda a, b: fsr.tmInterpMidpoint(a, b),
        "closeLinearGap": lambda a, b: fsr.closeLinearGap(a, b, 0.1), "closeArcGap": lambda a, b: fsr.closeArcGap(a, b, 0.1),
        "IKPath": lambda a, b: fsr.IKPath(a, b, 4), "poseError": lambda a, b: fsr.poseError(a, b),
        "geometricError": lambda a, b: fsr.geometricError(a, b), "twistToGoal": lambda a, b: fsr.twistToGoal(a, b),
        "lookAt": lambda a, b: fsr.lookAt(a, b), "inv": lambda a, b: a.inv(), "copy": lambda a, b: a.copy(), "tmctor": lambda a, b: tm(a),
        "abs": lambda a, b: abs(a), "T": lambda a, b: a.T(), "gTM": lambda a, b: a.gTM(), "gTAA": lambda a, b: a.gTAA(),
        "gRot": lambda a, b: a.gRot(), "gPos": lambda a, b: a.gPos(), "getQuat": lambda a, b: a.getQuat(),
        "adjoint": lambda a, b: a.adjoint(), "exp6": lambda a, b: a.exp6(), "approx": lambda a, b: a.approx(),
        "mul_scalar": lambda a, b: a * 2.5, "rmul_scalar": lambda a, b: 2.5 * a, "div_scalar": lambda a, b: a / 2.5,
        "add_scalar": lambda a, b: a + 0.5, "sub_scalar": lambda a, b: a - 0.5, "floordiv_scalar": lambda a, b: a // 0.3,
        "matmul_array": lambda a, b: a @ b.gTM(), "add_array6": lambda a, b: a + A6.copy(), "sub_array6": lambda a, b: a - A6.copy(),
        "tripleUnit": lambda a, b: a.tripleUnit(), "mirror": lambda a, b: fsr.mirror(a, b),
        "planeFromThreePoints": lambda a, b: fsr.planeFromThreePoints(a, b, a @ b), "getUnitVec": lambda a, b: fsr.getUnitVec(a, b),
        "angleBetween": lambda a, b: fsr.angleBetween(a, b, a @ b),
        "add_zero": lambda a, b: a + 0, "sub_zero": lambda a, b: a - 0, "mul_one": lambda a, b: a * 1, "rmul_one": lambda a, b: 1 * a,
        "div_one": lambda a, b: a / 1, "add_zero_array": lambda a, b: a + np.zeros(6),
        "tmctor_arr1": lambda a, b: tm(_arr1(a)),
        "lookAt_self": lambda a, b: fsr.lookAt(a, a), "matmul_self": lambda a, b: a @ a, "add_self": lambda a, b: a + a,
        "sub_self": lambda a, b: a - a, "l2g_self": lambda a, b: fsr.localToGlobal(a, a), "g2l_self": lambda a, b: fsr.globalToLocal(a, a),
        "distance_self": lambda a, b: fsr.distance(a, a), "arcDistance_self": lambda a, b: fsr.arcDistance(a, a),
    }
    S = {
        "add": lambda a, b: a + b, "sub": lambda a, b: a - b, "mul_scalar": lambda a, b: a * 2.5, "rmul_scalar": lambda a, b: 2.5 * a,
        "div_scalar": lambda a, b: a / 2.5, "abs": lambda a, b: abs(a), "copy": lambda a, b: a.copy(), "getData": lambda a, b: a.getData(),
        "flatten": lambda a, b: a.flatten(), "reshape": lambda a, b: a.reshape((1, 6)), "cross": lambda a, b: a.cross(b),
        "dot": lambda a, b: a.dot(b), "add_array6": lambda a, b: a + A6.copy(), "sub_array6": lambda a, b: a - A6.copy(),
        "rsub_array6": lambda a, b: A6.copy() - a, "add_scalar": lambda a, b: a + 0.5, "sub_scalar": lambda a, b: a - 0.5,
        "matmul_obj": lambda a, b: a @ b, "getitem_scalar": lambda a, b: a[2],
        "getForce": lambda a, b: a.getForce(), "getMoment": lambda a, b: a.getMoment(),
        "radd_zero": lambda a, b: 0 + a, "radd_zero_float": lambda a, b: 0.0 + a, "sum_builtin": lambda a, b: sum([a]),
        "add_zero": lambda a, b: a + 0, "sub_zero": lambda a, b: a - 0, "mul_one": lambda a, b: a * 1, "rmul_one": lambda a, b: 1 * a,
        "div_one": lambda a, b: a / 1, "radd_scalar": lambda a, b: 0.5 + a, "rsub_scalar": lambda a, b: 0.5 - a,
        "radd_array6": lambda a, b: A6.copy() + a, "add_zero_array": lambda a, b: a + np.zeros(6),
        "add_self": lambda a, b: a + a, "sub_self": lambda a, b: a - a, "cross_self": lambda a, b: a.cross(a), "dot_self": lambda a, b: a.dot(a),
    }
    return {"tm": T, "screw": S, "wrench": S}


def default_ok(kind):
    from basic_robotics.general import tm, Screw, Wrench
    if kind == "tm":
        d = tm()
        return bool(np.array_equal(d.gTM(), np.eye(4)) and np.all(d.gTAA() == 0)), d
    d = Screw() if kind == "screw" else Wrench()
    return bool(np.all(np.asarray(d.getData()) == 0)), d


def mutate_default(kind):
    from basic_robotics.general import tm, Screw, Wrench
    e = tm() if kind == "tm" else (Screw() if kind == "screw" else Wrench())
    try:
        e[0] = 5.0
    except Exception:
        pass
    for a in arrays_of(e):
        if a.size and a.flags.writeable:
            a.flat[a.size - 1] = 7.0


HELPERS = {"l2g", "g2l", "distance", "arcDistance", "tmAvgMidpoint", "tmInterpMidpoint", "closeLinearGap", "closeArcGap", "IKPath",
           "poseError", "geometricError", "twistToGoal", "lookAt", "mirror", "planeFromThreePoints", "getUnitVec", "angleBetween"}


def replay_history(job):
    beh, seed = job
    rng = random.Random(seed)
    fam = beh["fam"]
    cat = catalogue()[fam]
    a, b = operands(fam, rng, seed % 3)
    fa, fb = fingerprint(a), fingerprint(b)
    res = first = None
    opname = None
    for i, st in enumerate(beh["h"]):
        step = st["step"]
        try:
            with quiet():
                if step == "apply":
                    opname = st["op"]
                    res = cat[opname](a, b)
                    first = values(res)
                    # helpers must not MODIFY their operands; only operators, copies and get-accessors must not share
                    if opname not in HELPERS and shares(res, [a, b]):
                        return ("result_shares_storage_with_operand", i, opname, None)
                elif step == "mutate":
                    if opname not in HELPERS or not shares(res, [a, b]):
                        mutate(res, st["route"])
                elif step == "mutateDefault":
                    for k in ("tm", "screw", "wrench"):
                        mutate_default(k)
                elif step == "default":
                    ok, _d = default_ok(st["kind"])
                    if not ok:
                        return ("default_constructed_%s_is_not_identity_or_zero" % st["kind"], i, opname, None)
                elif step == "reapply":
                    again = values(cat[opname](a, b))
                    if len(again) != len(first) or any(x.shape != y.shape or not np.allclose(x, y, rtol=0, atol=1e-12, equal_nan=True)
                                                       for x, y in zip(again, first)):
                        return ("reapplied_operation_gives_a_different_result", i, opname, None)
        except Exception as e:
            if step in ("apply", "reapply"):
                return None          # the operation does not apply to these operands: totality is not C14's subject
            return ("raises", i, opname, "%s: %s" % (type(e).__name__, str(e)[:200]))
        if not same_fp(fingerprint(a), fa) or not same_fp(fingerprint(b), fb):
            return ("operand_changed_by_" + step, i, opname, st.get("route"))
    return None


def replay_chunk(jobs):
    out = []
    for j in jobs:
        v = replay_history(j)
        if v:
            out.append((j[0], v))
    return out


# ------------------------------------------------------------------ arrays handed to constructors and MR functions
def ctor_and_mr_part(ctx, rng, n_mr):
    from vf import zoo, spzoo
    from vf.adapters import c02, c09
    from basic_robotics.general import tm
    from basic_robotics.kinematics import Arm
    from basic_robotics.kinematics import sp_model
    import basic_robotics.modern_robotics_numba.modern_high_performance as mr
    checked = 0

    def unaltered(name, arrs, call):
        nonlocal checked
        before = [a.tobytes() for a in arrs]
        try:
            with quiet():
                call()
        except Exception as e:
            ctx.violation("raises", {"call": name}, observed="%s: %s" % (type(e).__name__, str(e)[:200]))
            return
        checked += 1
        for k, (a, b0) in enumerate(zip(arrs, before)):
            if a.tobytes() != b0:
                ctx.violation("array_handed_to_%s_was_altered" % name.split("#")[0], {"call": name, "argument_index": k})
                return
    for k in range(6):
        sp = zoo.spec_random(rng, rng.randint(1, 7))
        base = zoo.rand_pose(rng, 2.0)
        S, H, Ax = sp["S"].copy(), sp["homes"].copy(), sp["axes"].copy()
        unaltered("Arm#%d" % k, [S, H, Ax], lambda: Arm(tm(base.copy()), S, tm(sp["M"].copy()), H, Ax))
    for k in range(4):
        p = spzoo.params(rng)
        bj = np.array([[math.cos(t) * p["rb"], math.sin(t) * p["rb"], p["bth"]] for t in np.linspace(0, 2 * PI, 7)[:6]]).T
        tj = np.array([[math.cos(t + 0.5) * p["rt"], math.sin(t + 0.5) * p["rt"], -p["tth"]] for t in np.linspace(0, 2 * PI, 7)[:6]]).T
        h = p["lmin"] * 1.2
        unaltered("SP#%d" % k, [bj, tj], lambda: sp_model.SP(bj, tj, tm(), tm([0, 0, h, 0, 0, 0]), p["lmin"] * 0.5, p["lmin"] * 3, p["bth"], p["tth"], "x"))
    for fn in c02.shared_names():
        for k in range(n_mr):
            _, args = c02.gen_args(fn, rng)
            a2 = c02.cp(args)
            arrs = [a for a in a2 if isinstance(a, np.ndarray)]
            if fn == "SimulateControl" and k > 0:
                continue
            unaltered("mr.%s#%d" % (fn, k), arrs, lambda: getattr(mr, fn)(*a2))
    return checked


def run(ctx):
    import basic_robotics.general  # noqa: F401
    rng = random.Random(ctx.seed + 14)
    with ctx.timed("tlc"):
        r = tlc.run("ValueSemanticsMC", cfg_text=CFG % ctx.pick(2, 3), timeout=1200)
    ctx.add_tlc("heap model: every history of the operation catalogue", r)
    if not r.ok:
        ctx.model_violation("ValueSemantics", r)
    behs = r.json
    if len(behs) < 1000:
        ctx.machinery("only %d histories exported" % len(behs))
    jobs = [(b, ctx.seed * 31337 + i) for i, b in enumerate(behs)]
    chunks = [jobs[i:i + 200] for i in range(0, len(jobs), 200)]
    with ctx.timed("replay"):
        res = pmap(replay_chunk, chunks, timeout=900)
    seen = set()
    for out in res:
        for beh, (clause, step, opname, extra) in out:
            key = (clause, beh["fam"], opname)
            if key in seen:
                ctx.violations += 1
                continue
            seen.add(key)
            print("  violated: %-55s %s.%s" % (clause, beh["fam"], opname))
            ctx.violation(clause, {"family": beh["fam"], "op": opname, "history": beh["h"], "step": step}, observed=extra)
    with ctx.timed("constructor-and-mr-arguments"):
        n_args = ctor_and_mr_part(ctx, rng, ctx.pick(2, 20))
    ops = sorted(set((b["fam"], b["h"][0]["op"]) for b in behs))
    ctx.sample({"family": behs[7]["fam"], "history": behs[7]["h"]})
    return ctx.finish({
        "traces_validated_against_impl": len(behs), "evaluations": len(behs) + n_args, "histories_replayed": len(behs),
        "operations_in_catalogue": len(ops), "argument_fingerprint_checks": n_args, "distinct_nontrivial": len(behs),
        "rule": "TLC enumerates every history apply ; mutate{1..MaxMut} ; mutate-a-default ; default(kind) ; re-apply over the "
                "catalogue (46 transform operations and helpers, 19+ screw/wrench operations) x mutation routes x default "
                "kinds; each history has at least one in-place mutation (non-trivial); plus every robot constructor and "
                "every ported Modern Robotics function with fingerprinted arguments",
        "exhaustive": True,
    }, assumptions=["payload arrays: tm.TM / tm.TAA, Screw/Wrench .data, returned ndarrays and (nested) lists of those; frame / "
                    "position metadata of screws and wrenches, index/slice access, the Screw->Wrench conversion constructor "
                    "and the documented in-place functions are excluded as the property excludes them"])


def replay(ctx, rep):
    c = rep["case"]
    if "history" not in c:
        print("argument-fingerprint case:", c)
        return 0
    v = replay_history(({"fam": c["family"], "h": c["history"]}, 1))
    print(c["family"], c["op"], "->", v)
    if v:
        print("VIOLATION property=C14 replay=(replayed)")
        return 1
    return 0
