"""C08 - rigid-body dynamics are physically consistent.

Exact part : spec/Dynamics.tla (over MRExact's Newton-Euler state machine): TLC checks D1 (mass matrix
             symmetric, positive), D2 (M = sum J_i^T G_i J_i), D3 (forward inverts inverse dynamics, in
             division-free form), D5 (tau = M ddq + c + g + J^T F) on every lattice case and exports the
             integers, which are replayed into fmr.* and into the Arm methods of the same names (arms built
             through the public setters from the lattice data).
Law trace  : the same identities on random chains of 1..7 revolute joints with SPD inertias (D1-D5 to 1e-8
             relative), D4 (all inverse-dynamics implementations agree), D6 passivity and D7 gravity =
             gradient of the potential by finite differences, and energy drift of a torque-free chain (1e-6);
             decided by TLC against spec/LawTrace.tla.
"""
import contextlib
import io
import math
import random

import numpy as np
from scipy.linalg import expm

from vf import tlc, refeval as rf
from vf.law import LawLog
from vf.par import pmap
from vf.adapters import c02

LEVEL = "model_checking"
PI = math.pi
CFG = ("SPECIFICATION Spec\nCONSTANTS\n  Chains <- MCChains\n  Cases <- %s\n" +
       "".join("INVARIANT %s\n" % i for i in ["D1", "D2", "D3", "D5", "CZeroAtRest", "Dump"]))


def quiet():
    return contextlib.redirect_stdout(io.StringIO())


def phys_chain(rng, n):
    """revolute chain with link frames at the centres of mass: G_i = blockdiag(I_c, m 1)"""
    S = np.zeros((6, n))
    pts = []
    p = np.zeros(3)
    for i in range(n):
        w = np.array([rng.gauss(0, 1) for _ in range(3)])
        w /= np.linalg.norm(w)
        p = p + np.array([rng.uniform(0.1, 0.6), rng.uniform(-0.3, 0.3), rng.uniform(0.0, 0.5)])
        S[:3, i], S[3:, i] = w, -np.cross(w, p)
        pts.append(p.copy())
    M = np.array([c02.rand_se3(rng, 0.4) for _ in range(n + 1)])
    G = np.zeros((n, 6, 6))
    masses = []
    for i in range(n):
        A = np.array([[rng.gauss(0, 1) for _ in range(3)] for _ in range(3)])
        Ic = A @ A.T * 0.05 + np.eye(3) * rng.uniform(0.01, 0.3)
        m = rng.uniform(0.1, 50)
        G[i, :3, :3] = Ic
        G[i, 3:, 3:] = np.eye(3) * m
        masses.append(m)
    return dict(n=n, S=S, M=M, G=G, masses=masses, pts=np.array(pts).T)


def link_poses(c, th):
    """pose of every link frame (0..n) and tool: T_i = e^{S1 t1}..e^{Si ti} M_{0,i}"""
    out = []
    E = np.eye(4)
    M0 = np.eye(4)
    for i in range(c["n"]):
        E = E @ expm(rf.hat6(c["S"][:, i]) * th[i])
        M0 = M0 @ c["M"][i]
        out.append(E @ M0)
    return out


def mass_from_jacobians(c, th):
    n = c["n"]
    Mm = np.zeros((n, n))
    Ts = link_poses(c, th)
    for i in range(n):
        J = np.zeros((6, n))
        E = np.eye(4)
        for j in range(i + 1):
            J[:, j] = rf.adjoint(rf.trans_inv(Ts[i]) @ E) @ c["S"][:, j]
            E = E @ expm(rf.hat6(c["S"][:, j]) * th[j])
        Mm += J.T @ c["G"][i] @ J
    return Mm


def potential(c, th, g):
    return -sum(c["masses"][i] * float(g @ T[:3, 3]) for i, T in enumerate(link_poses(c, th)))


def float_job(job):
    seed, count = job
    import basic_robotics.modern_robotics_numba.modern_high_performance as fmr
    rng = random.Random(seed)
    ev = []
    C = lambda a: np.ascontiguousarray(np.array(a, dtype=float))
    for _ in range(count):
        n = rng.randint(1, 7)
        c = phys_chain(rng, n)
        reg = "n=%d" % n
        v = lambda s: np.array([rng.uniform(-s, s) for _ in range(n)])
        q, dq, ddq, tau = v(PI), v(3), v(5), v(20)
        g = np.array([rng.uniform(-10, 10) for _ in range(3)])
        F = np.array([rng.uniform(-10, 10) for _ in range(6)])
        case = {"seed": seed, "n": n, "q": q.tolist()}
        args = (C(c["M"]), C(c["G"]), C(c["S"]))
        Mm = np.asarray(fmr.MassMatrix(C(q), *args), dtype=float)
        sc = max(1.0, float(np.abs(Mm).max()))
        ev.append(("D1 mass matrix symmetric", reg, float(np.abs(Mm - Mm.T).max()) / sc, 1e-8, case))
        ev.append(("D1 mass matrix positive definite", reg, max(0.0, -float(np.linalg.eigvalsh((Mm + Mm.T) / 2).min())) / sc + (0 if np.linalg.eigvalsh((Mm + Mm.T) / 2).min() > 0 else 1), 1e-8, case))
        ev.append(("D2 M = sum J_i^T G_i J_i", reg, float(np.abs(Mm - mass_from_jacobians(c, q)).max()) / sc, 1e-8, case))
        cv = np.asarray(fmr.VelQuadraticForces(C(q), C(dq), *args), dtype=float).reshape(n)
        gv = np.asarray(fmr.GravityForces(C(q), C(g), *args), dtype=float).reshape(n)
        fv = np.asarray(fmr.EndEffectorForces(C(q), C(F), *args), dtype=float).reshape(n)
        idt = np.asarray(fmr.InverseDynamics(C(q), C(dq), C(ddq), C(g), C(F), *args), dtype=float).reshape(n)
        st = max(1.0, float(np.abs(idt).max()))
        ev.append(("D5 tau = M ddq + c + g + J^T F", reg, float(np.abs(idt - (Mm @ ddq + cv + gv + fv)).max()) / st, 1e-8, case))
        fd = np.asarray(fmr.ForwardDynamics(C(q), C(dq), C(tau), C(g), C(F), *args), dtype=float).reshape(n)
        back = np.asarray(fmr.InverseDynamics(C(q), C(dq), C(fd), C(g), C(F), *args), dtype=float).reshape(n)
        ev.append(("D3 ID(q,dq,FD(q,dq,tau)) = tau", reg, float(np.abs(back - tau).max()) / max(1.0, float(np.abs(tau).max())), 1e-8, case))
        # J^T F with the body Jacobian of the tool frame
        home = np.eye(4)
        for m in c["M"]:
            home = home @ m
        B = rf.adjoint(rf.trans_inv(home)) @ c["S"]
        Jb = np.asarray(fmr.JacobianBody(C(B), C(q)), dtype=float)
        ev.append(("D5 tip-force term = J_b^T F", reg, float(np.abs(fv - Jb.T @ F).max()) / max(1.0, float(np.abs(fv).max())), 1e-8, case))
        # D6 passivity: dq . c = 1/2 dq^T Mdot dq  (Mdot = directional derivative of M along dq)
        h = 1e-4
        Mp = np.asarray(fmr.MassMatrix(C(q + h * dq), *args), dtype=float)
        Mn = np.asarray(fmr.MassMatrix(C(q - h * dq), *args), dtype=float)
        Mp2 = np.asarray(fmr.MassMatrix(C(q + h / 2 * dq), *args), dtype=float)
        Mn2 = np.asarray(fmr.MassMatrix(C(q - h / 2 * dq), *args), dtype=float)
        Md = (4 * (Mp2 - Mn2) / h - (Mp - Mn) / (2 * h)) / 3
        lhs, rhs = float(dq @ cv), 0.5 * float(dq @ Md @ dq)
        ev.append(("D6 dq . c = 1/2 dq^T Mdot dq", reg, abs(lhs - rhs) / max(1.0, abs(lhs), abs(rhs), sc * float(dq @ dq)), 1e-6, case))
        # D7 gravity term = gradient of the potential
        grad = np.zeros(n)
        for i in range(n):
            e = np.zeros(n)
            e[i] = 1
            d1 = (potential(c, q + 1e-3 * e, g) - potential(c, q - 1e-3 * e, g)) / 2e-3
            d2 = (potential(c, q + 5e-4 * e, g) - potential(c, q - 5e-4 * e, g)) / 1e-3
            grad[i] = (4 * d2 - d1) / 3
        ev.append(("D7 gravity forces = gradient of the potential", reg, float(np.abs(gv - grad).max()) / max(1.0, float(np.abs(gv).max())), 1e-6, case))
        # energy of a torque-free, wrench-free chain (RK4, 40 steps of 1e-3)
        if n <= 4:
            def acc(qq, dd):
                return np.asarray(fmr.ForwardDynamics(C(qq), C(dd), C(np.zeros(n)), C(g), C(np.zeros(6)), *args), dtype=float).reshape(n)

            def energy(qq, dd):
                Mq = np.asarray(fmr.MassMatrix(C(qq), *args), dtype=float)
                return 0.5 * float(dd @ Mq @ dd) + potential(c, qq, g)
            qq, dd = q.copy(), dq.copy() * 0.5
            e0 = energy(qq, dd)
            dt = 1e-3
            for _s in range(40):
                k1q, k1v = dd, acc(qq, dd)
                k2q, k2v = dd + dt / 2 * k1v, acc(qq + dt / 2 * k1q, dd + dt / 2 * k1v)
                k3q, k3v = dd + dt / 2 * k2v, acc(qq + dt / 2 * k2q, dd + dt / 2 * k2v)
                k4q, k4v = dd + dt * k3v, acc(qq + dt * k3q, dd + dt * k3v)
                qq = qq + dt / 6 * (k1q + 2 * k2q + 2 * k3q + k4q)
                dd = dd + dt / 6 * (k1v + 2 * k2v + 2 * k3v + k4v)
            e1 = energy(qq, dd)
            ev.append(("energy conserved (torque-free, wrench-free)", reg, abs(e1 - e0) / max(1.0, abs(e0)), 1e-6, case))
    return ev


def unit3(rng):
    v = np.array([rng.gauss(0, 1) for _ in range(3)])
    return v / np.linalg.norm(v)


def arm_from(S, Mlist, G, masses, limits=None, base=None):
    """an Arm built through the public setters from chain data given in the arm's own base frame; with `base` the arm
    stands on that pose: the constructor takes the base-local screws / tool home, the setters the global link frames
    (the first link transform then starts at the world origin: base * M_1)"""
    from basic_robotics.general import tm
    from basic_robotics.kinematics import Arm
    n = S.shape[1]
    home = np.eye(4)
    link_homes = []
    B = np.eye(4) if base is None else np.asarray(base, dtype=float)
    Mlist = [np.array(m, dtype=float) for m in Mlist]
    for i, m in enumerate(Mlist):
        home = home @ m
        if i < n:
            link_homes.append(tm(B @ home))
    axes = S[:3, :].copy()
    pts = np.zeros((3, n))
    for i in range(n):
        w, v = S[:3, i], S[3:, i]
        if np.linalg.norm(w) > 0:
            pts[:, i] = np.cross(w, v)
    Mg = [B @ Mlist[0]] + Mlist[1:]
    with quiet():
        arm = Arm(tm(B.copy()), S.copy(), tm(home.copy()), pts, axes)
        arm.setJointProperties(np.ones(n) * -2 * PI, np.ones(n) * 2 * PI)
        arm.setOrigins(link_homes_global=link_homes)
        arm.setMassProperties(np.array(masses, dtype=float), [tm(np.array(m, dtype=float)) for m in Mg], np.array(G, dtype=float))
    return arm


def arm_part(L, rows, rng, n_float):
    """D4 and the Arm-level methods: exact lattice arms and random arms"""
    import basic_robotics.modern_robotics_numba.modern_high_performance as fmr
    from basic_robotics.general import Wrench
    C = lambda a: np.ascontiguousarray(np.array(a, dtype=float))
    cases = []
    for r in rows:
        ch = c02.CHAINS[r["c"]]
        if any(not any(s[:3]) for s in ch["S"]):
            continue                                  # Arm models revolute chains
        K = r["case"]
        n = len(ch["S"])
        S = np.array(ch["S"], dtype=float).T
        G = np.array([np.diag(g) for g in ch["G"]], dtype=float)
        th = np.array(K["q"], dtype=float) * PI / 2
        cases.append(("lattice|n=%d" % n, S, np.array(ch["M"], dtype=float), G, [g[3] for g in ch["G"]], th, np.array(K["dq"], dtype=float),
                      np.array(K["ddq"], dtype=float), np.array(K["g"], dtype=float), np.array(K["F"], dtype=float),
                      {"tau": np.array(r["tau"], dtype=float), "mass": np.array(r["mass"], dtype=float)}, {"chain": r["c"], "case": K}))
    for _ in range(n_float):
        n = rng.choice([1, 2, 3, 6, 6, 7])
        c = phys_chain(rng, n)
        v = lambda s: np.array([rng.uniform(-s, s) for _ in range(n)])
        cases.append(("float|n=%d" % n, c["S"], c["M"], c["G"], c["masses"], v(PI), v(2), v(3), np.array([rng.uniform(-10, 10) for _ in range(3)]),
                      np.array([rng.uniform(-10, 10) for _ in range(6)]), None, {"n": n}))
    placed = []
    forced = set()
    for k, cs in enumerate(cases):          # every third arm also stands on a random base pose (same chain, moved rigidly)
        must = cs[0] in ("float|n=6", "lattice|n=3") and sum(1 for f in forced if f[0] == cs[0]) < 2
        if must:
            forced.add((cs[0], k))
        if k % 3 == 0 or (cs[0] in ("float|n=6", "lattice|n=3") and sum(1 for f in forced if f[0] == cs[0]) <= 2 and (cs[0], k) in forced):
            B = rf.taa_to_tm([rng.uniform(-2, 2) for _ in range(3)] + list(unit3(rng) * rng.uniform(0.2, 2.5)))
            reg, S, Ml, G, masses, th, dq, ddq, g, F, exact, case = cs
            Sg = rf.adjoint(B) @ S
            Mlg = np.array([B @ np.array(Ml[0], dtype=float)] + [np.array(m, dtype=float) for m in Ml[1:]])
            placed.append((reg.replace("|", "|placed|", 1), Sg, Mlg, G, masses, th, dq, ddq, g, F, None, dict(case, base=B.tolist()), (S, Ml, B)))
    for cs in cases + placed:
        reg, S, Ml, G, masses, th, dq, ddq, g, F, exact, case = cs[:12]
        n = S.shape[1]
        if len(cs) > 12:
            S0, Ml0, B = cs[12]
            arm = arm_from(S0, Ml0, G, masses, base=B)          # S, Ml below: the same chain in world coordinates (the oracle's view)
        else:
            arm = arm_from(S, Ml, G, masses)
        ref_tau = np.asarray(fmr.InverseDynamics(C(th), C(dq), C(ddq), C(g), C(F), C(Ml), C(G), C(S)), dtype=float).reshape(n)
        ref_M = np.asarray(fmr.MassMatrix(C(th), C(Ml), C(G), C(S)), dtype=float)
        st, sm = max(1.0, float(np.abs(ref_tau).max())), max(1.0, float(np.abs(ref_M).max()))
        if exact is not None:
            L.log("fmr.InverseDynamics = TLC exact value", reg, float(np.abs(ref_tau - exact["tau"]).max()) / st, 1e-9, case)
        W = Wrench(F.reshape((6, 1)).copy())

        def tryit(law, f, want, scale):
            try:
                with quiet():
                    got = np.asarray(f(), dtype=float).reshape(np.shape(want))
                L.log(law, reg, float(np.abs(got - want).max()) / scale, 1e-8, case)
            except Exception as e:
                L.log(law, reg, float("inf"), 1e-8, dict(case, raised="%s: %s" % (type(e).__name__, str(e)[:200])))
        tryit("D4 Arm.inverseDynamics agrees", lambda: arm.inverseDynamics(th.copy(), dq.copy(), ddq.copy(), g.copy(), Wrench(F.reshape((6, 1)).copy()))[0],
              ref_tau, st)
        tryit("D4 Arm.inverseDynamicsEMR agrees", lambda: arm.inverseDynamicsEMR(th.copy(), dq.copy(), ddq.copy(), g.copy(), F.copy()), ref_tau, st)
        tryit("D4 Arm.inverseDynamicsC agrees", lambda: arm.inverseDynamicsC(th.copy(), dq.copy(), ddq.copy(), g.copy(), Wrench(F.reshape((6, 1)).copy()))[0],
              ref_tau, st)
        tryit("Arm.massMatrix = MassMatrix", lambda: arm.massMatrix(th.copy()), ref_M, sm)
        tau = ref_tau
        tryit("Arm.forwardDynamics inverts inverse dynamics", lambda: arm.forwardDynamics(th.copy(), dq.copy(), tau.copy(), g.copy(), F.copy()), ddq,
              max(1.0, float(np.abs(ddq).max())))
        tryit("Arm.forwardDynamicsE inverts inverse dynamics", lambda: arm.forwardDynamicsE(th.copy(), dq.copy(), tau.copy(), g.copy(),
                                                                                         Wrench(F.reshape((6, 1)).copy()))[0], ddq,
              max(1.0, float(np.abs(ddq).max())))
        cg = np.asarray(fmr.InverseDynamics(C(th), C(dq), C(np.zeros(n)), C(g), C(np.zeros(6)), C(Ml), C(G), C(S)), dtype=float).reshape(n)
        tryit("Arm.coriolisGravity = c + g", lambda: arm.coriolisGravity(th.copy(), dq.copy(), g.copy()), cg, max(1.0, float(np.abs(cg).max())))


def run(ctx):
    rng = random.Random(ctx.seed + 8)
    with ctx.timed("tlc-dynamics"):
        r = tlc.run("Dynamics", cfg_text=CFG % ctx.pick("SmallCases", "BigCases"), timeout=6000, heap="8g")
    ctx.add_tlc("D1-D5 on the exact lattice (Newton-Euler state machine)", r)
    if not r.ok:
        ctx.model_violation("Dynamics", r)
    L = LawLog()
    n_float = ctx.pick(160, 30000)
    with ctx.timed("float-laws"):
        res = pmap(float_job, [(ctx.seed * 104729 + k, 10) for k in range(n_float // 10)], timeout=1500)
    for out in res:
        for law, reg, resid, tol, case in out:
            L.log(law, reg, resid, tol, case)
    with ctx.timed("arm-level"):
        arm_part(L, r.json[:: ctx.pick(4, 1)], rng, ctx.pick(20, 600))
    for law in ("D1 mass matrix symmetric", "D2 M = sum J_i^T G_i J_i", "D3 ID(q,dq,FD(q,dq,tau)) = tau", "D5 tau = M ddq + c + g + J^T F",
                "D6 dq . c = 1/2 dq^T Mdot dq", "D7 gravity forces = gradient of the potential"):
        for n in (1, 3, 7):
            L.require(law, "n=%d" % n, 2)
    L.require("energy conserved (torque-free, wrench-free)", "n=2", 1)
    for law in ("D4 Arm.inverseDynamics agrees", "D4 Arm.inverseDynamicsEMR agrees", "D4 Arm.inverseDynamicsC agrees", "Arm.massMatrix = MassMatrix"):
        L.require(law, "float|n=6", 2)
        L.require(law, "lattice|n=3", 2)
        L.require(law, "float|placed|n=6", 2)
        L.require(law, "lattice|placed|n=3", 2)
    with ctx.timed("lawtrace"):
        L.decide(ctx, tag="c08")
    ctx.sample({"exact_case": {k: r.json[7][k] for k in ("c", "case", "tau", "mass", "cvec", "gvec", "ftip")}})
    ctx.sample({"float_event": {"law": L.events[5][0], "region": L.events[5][1], "case": L.events[5][4]}})
    return ctx.finish({
        "traces_validated_against_impl": len(r.json), "evaluations": len(L.events), "exact_lattice_cases": len(r.json),
        "float_chains": n_float, "distinct_nontrivial": len(set((e[0], e[1], repr(e[4])) for e in L.events)),
        "rule": "exact: every lattice case of MRExactMC; float: random revolute chains of 1..7 joints with link frames at the "
                "centres of mass, SPD rotational inertias, masses in [0.1, 50], |dq|,|ddq|,|tau|,|g|,|F| up to the stated "
                "bounds; Arm-level: lattice arms and random arms built through the public setters",
    }, assumptions=["D6/D7/energy are finite-difference / short RK4 thresholds (1e-6)", "link frames at centres of mass so that the "
                    "potential is -sum m_i g . p_i"])


def replay(ctx, rep):
    print("re-run the check with the same seed; case:", rep["case"])
    return 0
