"""C11 - Stewart platform inverse Jacobian is d(legs)/d(twist); leg forces balance the load.

Exact part : spec/StewartGeom.tla - TLC proves the row identity  L_i * dL_i/ds = d_i . (w x p_i + v)
             = [q_i x d_i, d_i] . (w, v)  for integer twists on the lattice platform and exports the
             scaled rows [q_i x d_i, d_i]; the real inverseJacobian() times the leg length must equal them.
Law trace  : K1 Richardson derivative of the code's own IK lengths along random spatial twists of the
             top plate vs inverseJacobian() * V, at random base placements and after spinCustom, only
             where cond(J^-1) <= 1e4;  K3 J^-T * staticForces(F) = F, staticForcesInv round trip,
             sumActuatorWrenches(staticForces(F)) = -F, body-frame variants;  K4 carryMassCalc = static
             forces of the applied wrench plus top-plate and shaft weights at their centres of gravity.
             Decided by TLC against spec/LawTrace.tla.
"""
import contextlib
import io
import math
import random

import numpy as np

from vf import tlc, refeval as rf, spzoo
from vf.law import LawLog
from vf.par import pmap
from vf.adapters.c01 import tf_mat
from vf.adapters import c09

LEVEL = "model_checking"


def quiet():
    return contextlib.redirect_stdout(io.StringIO())


def data(x):
    return np.asarray(x.getData() if hasattr(x, "getData") else x, dtype=float).reshape(-1)


def exact_rows(L, rows):
    from basic_robotics.general import tm
    from basic_robotics.kinematics.sp_model import SP
    with quiet():
        sp = SP(c09.BJ1.copy(), c09.TJ1.copy(), tm(), tm([0, 0, 12, 0, 0, 0]), 3.0, 40.0, 1.0, 1.0, "lattice")
    for r in rows:
        B, T = tf_mat(r["B"]), tf_mat(r["T"])
        with quiet():
            J = np.asarray(sp.inverseJacobian(tm(T.copy()), tm(B.copy()), protect=True), dtype=float)
            lens, _ = sp.IK(top_plate_pos=tm(T.copy()), bottom_plate_pos=tm(B.copy()), protect=True)
        lens = np.asarray(lens, dtype=float).reshape(6)
        worst = 0.0
        for i, row in enumerate(r["rows"]):
            want = np.concatenate([np.array(row["m"], dtype=float) / row["md"], np.array(row["d"], dtype=float) / row["dd"]])
            worst = max(worst, float(np.abs(J[i] * lens[i] - want).max()) / max(1.0, float(np.abs(want).max())))
        L.log("K2 row * length = [q x d, d] (exact)", "lattice", worst, 1e-9, {"B": r["B"], "T": r["T"]})
    L.require("K2 row * length = [q x d, d] (exact)", "lattice", len(rows))


def geometry_job(job):
    idx, seed, n_poses = job
    from basic_robotics.general import tm, Wrench
    rng = random.Random(seed)
    p = spzoo.params(rng)
    how = ["newSP", "loadSP"][idx % 2]
    far = idx % 4 == 3          # a small platform standing metres from the world origin: the space-frame inverse Jacobian is
    if far:                     # then ill conditioned (cond ~ (|p| / radius)^2, here 1e3 .. 1e4) but far from singular
        for _try in range(50):
            if p["rb"] <= 0.4:
                break
            p = spzoo.params(rng)
    base = np.eye(4) if (idx % 3 == 0 and not far) else spzoo.rand_base(rng, scale=12.0 if far else 2.0)
    ev = []
    case0 = {"params": p, "how": how, "seed": seed}
    with quiet():
        sp = spzoo.build(p, base, how, c09.TMP)
    neutral_rel = rf.trans_inv(sp.getBottomT().gTM()) @ sp.getTopT().gTM()
    h = float(neutral_rel[2, 3])
    grav = np.asarray(sp.getGrav(), dtype=float)
    bl, tl = spzoo.tables(sp)          # plate-fixed joint coordinates, read once at the neutral pose (and after a re-spin)
    for stage in ("fresh", "moved", "respun"):
        with quiet():
            if stage == "moved":
                base = spzoo.rand_base(rng, scale=12.0 if far else 2.0)
                sp.move(tm(base.copy()))
            elif stage == "respun":
                spin = rng.uniform(-1.0, 1.0)
                sp.spinCustom(spin)
                base = sp.getBottomT().gTM()
                Rz = rf.rot_exp([0, 0, spin])
                bl, tl = Rz @ bl, Rz @ tl            # the re-spun plate-fixed points, computed (C09's G0), not read back
        for _ in range(n_poses):
            rel = spzoo.workspace_pose(rng, h)
            T = base @ rel
            reg = "%s|%s" % ("identity-base" if np.allclose(base, np.eye(4)) else "far-base" if far else "placed", stage)
            case = dict(case0, stage=stage, base=base.tolist(), rel=rel.tolist())
            with quiet():
                lens, valid = sp.IK(top_plate_pos=tm(T.copy()), bottom_plate_pos=tm(base.copy()))
                accepted = bool(valid) and float(np.abs(sp.getTopT().gTM() - T).max()) < 1e-9
                if not accepted:
                    sp.IK(top_plate_pos=tm(base @ neutral_rel), bottom_plate_pos=tm(base.copy()), protect=True)
                    continue
                J = np.asarray(sp.inverseJacobian(), dtype=float)
            cond = float(np.linalg.cond(J))
            if cond > 1e4:
                continue
            if cond >= 1e3:
                ev.append(("coverage: cond(J^-1) in [1e3, 1e4]", reg, 0.0, 1.0, {"cond": cond}))
            pure = float(np.abs(sp.getTopT().gTM() - T).max()) + float(np.abs(sp.getBottomT().gTM() - base).max())
            ev.append(("query leaves both plate poses unchanged", reg, pure, 1e-9, case))
            scale = max(1.0, float(np.abs(J).max()))
            # K1: derivative of the code's IK lengths along spatial twists of the top plate
            for _k in range(3):
                V = np.array([rng.uniform(-1, 1) for _ in range(6)])
                # a spatial twist turns the plate about the WORLD origin: metres away from it the finite-difference steps
                # (1e-3, 5e-4) would sweep centimetres and their truncation error (~h^4 |p|^5) would reach the 1e-6 bound;
                # the law is linear in the twist, so the twist is scaled down instead of the steps
                V = V / max(1.0, float(np.linalg.norm(T[:3, 3])) / 2.0)

                def lens_at(s):
                    Ts = rf.se3_exp(V * s) @ T
                    with quiet():
                        l, _ = sp.IK(top_plate_pos=tm(Ts), bottom_plate_pos=tm(base.copy()), protect=True)
                    return np.asarray(l, dtype=float).reshape(6)
                d1 = (lens_at(1e-3) - lens_at(-1e-3)) / 2e-3
                d2 = (lens_at(5e-4) - lens_at(-5e-4)) / 1e-3
                with quiet():
                    sp.IK(top_plate_pos=tm(T.copy()), bottom_plate_pos=tm(base.copy()), protect=True)
                D = (4 * d2 - d1) / 3
                ev.append(("K1 leg rates = inverse Jacobian * twist", reg, float(np.abs(J @ V - D).max()) / scale, 1e-6,
                           dict(case, V=V.tolist())))
            # K3: statics
            F = np.array([rng.uniform(-100, 100) for _ in range(6)])
            nF = float(np.linalg.norm(F))
            with quiet():
                tau = data(sp.staticForces(Wrench(F.reshape((6, 1)).copy())))
            ev.append(("K3 J^-T f = F", reg, float(np.linalg.norm(J.T @ tau - F)) / nF, 1e-8, dict(case, F=F.tolist())))
            with quiet():
                back = data(sp.staticForcesInv(tau.copy()))
            ev.append(("K3 staticForcesInv(staticForces(F)) = F", reg, float(np.linalg.norm(back - F)) / nF, 1e-8, case))
            with quiet():
                sw = data(sp.sumActuatorWrenches(tau.copy()))
            ev.append(("K3 summed leg wrench on the base = -F", reg, float(np.linalg.norm(sw + F)) / nF, 1e-8, case))
            # body-frame interface: F expressed in the top-plate frame
            Fb = rf.adjoint(T).T @ F                      # F_body = Ad(T_space,body)^T F_space
            with quiet():
                taub = data(sp.staticForcesBody(Wrench(Fb.reshape((6, 1)).copy())))
            ev.append(("K3 body interface gives the same leg forces", reg, float(np.linalg.norm(taub - tau)) / max(1.0, float(np.linalg.norm(tau))),
                       1e-8, case))
            # the forces of the latest query are what the platform remembers: the argument-less forms answer for them,
            # whichever interface the query came through (a different load in between shows a stale memory)
            F2 = np.array([rng.uniform(-100, 100) for _ in range(6)])
            with quiet():
                sp.staticForces(Wrench(F2.reshape((6, 1)).copy()))
                sw_s = data(sp.sumActuatorWrenches())
                sp.staticForcesBody(Wrench(Fb.reshape((6, 1)).copy()))
                sw_b = data(sp.sumActuatorWrenches())
                mem_b = data(sp.getActuatorForces())
            ev.append(("K3 remembered forces: summed leg wrench = -F after a space-frame query", reg,
                       float(np.linalg.norm(sw_s + F2)) / float(np.linalg.norm(F2)), 1e-8, dict(case, F2=F2.tolist())))
            ev.append(("K3 remembered forces: summed leg wrench = -F after a body-frame query", reg, float(np.linalg.norm(sw_b + F)) / nF, 1e-8, case))
            ev.append(("K3 remembered forces = the forces returned", reg, float(np.linalg.norm(mem_b - taub)) / max(1.0, float(np.linalg.norm(taub))),
                       1e-8, case))
            with quiet():
                backb = data(sp.staticForcesInvBody(tau.copy()))
            ev.append(("K3 staticForcesInvBody(f) = F in the body frame", reg, float(np.linalg.norm(backb - Fb)) / nF, 1e-8, case))
            # K4: mass-carrying variant
            with quiet():
                tau_c, _w = sp.carryMassCalc(Wrench(F.reshape((6, 1)).copy()))
                tau_c = data(tau_c)
                # weights rebuilt from the constructor data and the pose only: the top plate's at its origin, each shaft's on
                # the leg axis, the documented distance (shaft COG) below its top joint
                W = F.copy()
                top_p = T[:3, 3]
                ftop = grav * p["masses"][3]
                W += np.concatenate([np.cross(top_p, ftop), ftop])
                _, pb, pt = spzoo.oracle_lens(bl, tl, base, T)
                for i in range(6):
                    d = pb[:, i] - pt[:, i]
                    loc = pt[:, i] + p["cog"][1] * d / np.linalg.norm(d)
                    fs = grav * p["masses"][1]
                    W += np.concatenate([np.cross(loc, fs), fs])
            want = np.linalg.pinv(J).T @ W if False else np.linalg.solve(J.T, W)
            ev.append(("K4 carryMassCalc = statics of wrench + top-plate and shaft weights", reg,
                       float(np.linalg.norm(tau_c - want)) / max(1.0, float(np.linalg.norm(want))), 1e-8, case))
            ev.append(("query leaves both plate poses unchanged", reg,
                       float(np.abs(sp.getTopT().gTM() - T).max()) + float(np.abs(sp.getBottomT().gTM() - base).max()), 1e-9, case))
            # K5: a Jacobian query at an explicitly passed pose X is the Jacobian of X and leaves the platform at T in every
            # respect the statics interface reads (lengths, joint points): the answers at T are the same afterwards
            relX = spzoo.workspace_pose(rng, h)
            X = base @ relX
            casex = dict(case, X=X.tolist(), F=F.tolist())
            with quiet():
                lens_T = np.asarray(sp.getLens(), dtype=float).reshape(6).copy()
                JX = np.asarray(sp.inverseJacobian(top_plate_pos=tm(X.copy())), dtype=float)
                lens_T2 = np.asarray(sp.getLens(), dtype=float).reshape(6)
                sw2 = data(sp.sumActuatorWrenches(tau.copy()))
                tau_c2, _w = sp.carryMassCalc(Wrench(F.reshape((6, 1)).copy()))
                tau_c2 = data(tau_c2)
                J_again = np.asarray(sp.inverseJacobian(), dtype=float)
            ev.append(("K5 explicit-pose query leaves pose and leg lengths", reg,
                       float(np.abs(sp.getTopT().gTM() - T).max()) + float(np.abs(sp.getBottomT().gTM() - base).max())
                       + float(np.abs(lens_T2 - lens_T).max()), 1e-9, casex))
            ev.append(("K5 after an explicit-pose query: summed leg wrench on the base = -F", reg,
                       float(np.linalg.norm(sw2 + F)) / nF, 1e-8, casex))
            ev.append(("K5 after an explicit-pose query: carryMassCalc unchanged", reg,
                       float(np.linalg.norm(tau_c2 - want)) / max(1.0, float(np.linalg.norm(want))), 1e-8, casex))
            ev.append(("K5 after an explicit-pose query: Jacobian at the current pose unchanged", reg,
                       float(np.abs(J_again - J).max()) / scale, 1e-9, casex))
            with quiet():
                sp.IK(top_plate_pos=tm(X.copy()), bottom_plate_pos=tm(base.copy()), protect=True)
                J_at_X = np.asarray(sp.inverseJacobian(), dtype=float)
                sp.IK(top_plate_pos=tm(T.copy()), bottom_plate_pos=tm(base.copy()), protect=True)
            ev.append(("K5 explicit-pose query = Jacobian of that pose", reg,
                       float(np.abs(JX - J_at_X).max()) / max(1.0, float(np.abs(J_at_X).max())), 1e-9, casex))
    return ev


def run(ctx):
    import basic_robotics.kinematics  # noqa: F401
    with ctx.timed("tlc-geometry"):
        r = tlc.run("StewartGeomMC", cfg_text=c09.GEOM_CFG, timeout=1200)
    ctx.add_tlc("exact platform geometry (row identity and scaled rows)", r)
    if not r.ok:
        ctx.model_violation("StewartGeom", r)
    L = LawLog()
    n_geo = ctx.pick(64, 3000)
    with ctx.timed("geometries"):
        res = pmap(geometry_job, [(i, ctx.seed * 1000033 + i, ctx.pick(4, 10)) for i in range(n_geo)], timeout=900)
    for out in res:
        for law, reg, resid, tol, case in out:
            L.log(law, reg, resid, tol, case)
    with ctx.timed("exact-rows"):
        exact_rows(L, r.json)
    for law in ("K1 leg rates = inverse Jacobian * twist", "K3 J^-T f = F", "K3 summed leg wrench on the base = -F",
                "K3 body interface gives the same leg forces", "K4 carryMassCalc = statics of wrench + top-plate and shaft weights"):
        for reg in ("identity-base|fresh", "placed|fresh", "placed|moved", "placed|respun"):
            L.require(law, reg, 3)
    for law in ("K3 J^-T f = F", "K3 summed leg wrench on the base = -F", "K3 body interface gives the same leg forces",
                "K4 carryMassCalc = statics of wrench + top-plate and shaft weights", "coverage: cond(J^-1) in [1e3, 1e4]"):
        L.require(law, "far-base|fresh", 3)
    for law in ("K5 after an explicit-pose query: summed leg wrench on the base = -F", "K5 after an explicit-pose query: carryMassCalc unchanged",
                "K5 explicit-pose query = Jacobian of that pose"):
        for reg in ("identity-base|fresh", "placed|fresh", "placed|moved", "placed|respun"):
            L.require(law, reg, 3)
    with ctx.timed("lawtrace"):
        L.decide(ctx, tag="c11")
    ctx.sample({"exact_rows_case": {k: r.json[2][k] for k in ("B", "T", "rows")}})
    ctx.sample({"event": {"law": L.events[0][0], "region": L.events[0][1], "case": L.events[0][4]}})
    return ctx.finish({
        "traces_validated_against_impl": len(r.json) + n_geo, "evaluations": len(L.events), "geometries": n_geo,
        "distinct_nontrivial": len(set((e[0], e[1], repr(e[4])) for e in L.events)),
        "rule": "geometries from the quantifier's ranges (newSP / loadSP) at identity and random bases, three stages "
                "(fresh, moved, re-spun), in-workspace poses with cond(J^-1) <= 1e4, random twists and wrenches (|F| <= "
                "100 per component); distinct = distinct (law, region, arguments)",
    }, assumptions=["K1 differentiates the code's own IK lengths (Richardson, steps 1e-3 / 5e-4)",
                    "weights for K4 are rebuilt from the masses and the shaft COG distance handed to the constructor, getGrav(), and the joint tables read once at the neutral pose"])


def replay(ctx, rep):
    print("re-run the check with the same seed; case:", rep["case"])
    return 0
