"""C03 - a transform object's matrix and six-vector always describe the same pose.

spec/TmObject.tla is the abstract machine of `tm` over value terms.  TLC checks coherence,
canonical form, read-back and slot independence on every history to a depth and exports the
histories; each is replayed on real tm objects and the state after its last step is compared
with RefEval of the spec's terms (so every step of every history is compared exactly once).
"""
import math
import random

import numpy as np

from vf import tlc, refeval as rf
from vf.par import pmap

LEVEL = "model_checking"
TOL = 5e-6
PI = math.pi
PAL = {
    0: [0, 0, 0, 0, 0, 0],
    1: [1.0, 2.0, 3.0, 0, 0, 0],                       # angle 0
    2: [-0.5, 0.25, 2.0, 1e-7, 0, 0],                  # angle 1e-7
    3: [0.3, -1.0, 0.5, 0.6, 0.0, 0.8],                # angle 1, generic axis
    4: [0.0, 0.0, 1.0, 0.0, PI - 1e-3, 0.0],           # angle pi - 1e-3
    5: [2.0, 0.0, -1.0, 0.0, 0.0, 2 * PI + 0.5],       # angle 2 pi + 0.5
    6: [0.0, 1.0, 0.0, PI - 1e-3, 0.0, 0.0],           # angle pi - 1e-3 about another axis
    7: [0.3, -0.2, 0.5, 2 * PI + 0.5, 1.0, 0.0],       # first rotation entry beyond 2 pi, generic axis
    8: [-1.0, 0.0, 2.0, 0.4, -(2 * PI + 1.0), 0.2],    # second rotation entry beyond -2 pi
}
SCAL = {1: 2.0, 2: -0.5, 3: 0.7}


def tup(x):
    return tuple(tup(y) for y in x) if isinstance(x, list) else x


class Ambiguous(Exception):
    """the exact value sits on a discontinuity (floor at an integer): RefEval cannot name the float result"""


class Eval:
    """RefEval of TmObject terms.  `angmod` has no value in the spec: it is bound to what the
    implementation produced at that step (C03 only demands coherence of it)."""

    def __init__(self):
        self.memo = {}
        self.bound = {}

    def vec(self, t):
        if t in self.memo:
            return self.memo[t]
        k = t[0]
        if k == "lit":
            v = np.array(PAL[t[1]], dtype=float)
        elif k == "pos":
            v = np.array(PAL[t[1]][:3] + [0, 0, 0], dtype=float)
        elif k == "rot":
            v = np.array([0, 0, 0] + PAL[t[1]][3:], dtype=float)
        elif k in ("rpy", "rpy3"):
            p = PAL[t[1]]
            r = rf.rot_log(rf.rpy_to_rot(p[3], p[4], p[5]))
            v = np.concatenate([p[:3] if k == "rpy" else [0, 0, 0], r])
        elif k == "log":
            v = rf.tm_to_taa(self.mat(t[1]))
        elif k == "add":
            v = self.vec(t[1]) + self.vec(t[2])
        elif k == "sub":
            v = self.vec(t[1]) - self.vec(t[2])
        elif k == "adds":
            v = self.vec(t[1]) + SCAL[t[2]]
        elif k == "subs":
            v = self.vec(t[1]) - SCAL[t[2]]
        elif k == "scale":
            v = self.vec(t[1]) * SCAL[t[2]]
        elif k == "divs":
            v = self.vec(t[1]) / SCAL[t[2]]
        elif k == "abs":
            v = np.abs(self.vec(t[1]))
        elif k == "fdivs":
            q = self.vec(t[1]) / SCAL[t[2]]
            if np.any(np.abs(q - np.round(q)) < 1e-6):
                raise Ambiguous()
            v = np.floor(q)
        elif k == "upd":
            v = self.vec(t[1]).copy()
            v[t[2]] = SCAL[t[3]]
        elif k == "upds":
            v = self.vec(t[1]).copy()
            v[t[2]:t[2] + 3] = np.array(PAL[t[3]][3:6]) * 0.5
        elif k == "angmod":
            v = self.bound[t]
        else:
            raise ValueError("vector term %r" % (t,))
        self.memo[t] = v
        return v

    def mat(self, t):
        if t in self.memo:
            return self.memo[t]
        k = t[0]
        if k == "exp":
            m = rf.taa_to_tm(self.vec(t[1]))
        elif k == "mul":
            m = self.mat(t[1]) @ self.mat(t[2])
        elif k == "inv":
            m = rf.trans_inv(self.mat(t[1]))
        elif k == "rdiv":
            m = self.mat(t[1]) @ rf.trans_inv(self.mat(t[2]))
        elif k == "quatm":
            m = self.mat(t[1]).copy()
            m[:3, :3] = rf.rot_exp(PAL[t[2]][3:])
        else:
            raise ValueError("matrix term %r" % (t,))
        self.memo[t] = m
        return m


def quat_of(k):
    return rf.rot_to_quat_xyzw(rf.rot_exp(PAL[k][3:]))


def apply(objs, st, ev):
    """Execute one spec operation on the real objects (objs: dict slot -> tm)."""
    from basic_robotics.general import tm, fsr
    t = st["t"]
    u = 3 - t
    op = st["op"]
    a, b = objs[t], objs[u]
    if op == "new":
        f, k = st["form"], st.get("k", 0)
        p = PAL[k]
        if f == "list6":
            objs[t] = tm(list(p))
        elif f == "arr6":
            objs[t] = tm(np.array(p, dtype=float))
        elif f == "arr6x1":
            objs[t] = tm(np.array(p, dtype=float).reshape((6, 1)))
        elif f == "pair":
            objs[t] = tm([list(p[:3]), list(p[3:])])
        elif f == "list3":
            objs[t] = tm(list(p[3:]))
        elif f == "arr3":
            objs[t] = tm(np.array(p[3:], dtype=float))
        elif f == "rpy6":
            objs[t] = tm(list(p), rpy=True)
        elif f == "rpy3":
            objs[t] = tm(list(p[3:]), rpy=True)
        elif f == "list7":
            objs[t] = tm(list(p[:3]) + [float(x) for x in quat_of(k)])
        elif f == "arr7":
            objs[t] = tm(np.array(list(p[:3]) + [float(x) for x in quat_of(k)]))
        elif f == "mat44":
            objs[t] = tm(rf.taa_to_tm(p))
        elif f == "tmcopy":
            objs[t] = tm(b)
        elif f == "arr1tm":
            arr = np.empty(1, dtype=object)
            arr[0] = b
            objs[t] = tm(arr)
        else:
            raise ValueError(f)
    elif op == "sTM":
        a.sTM(rf.taa_to_tm(PAL[st["k"]]))
    elif op == "sTAA":
        a.sTAA(np.array(PAL[st["k"]], dtype=float).reshape((6, 1)))
    elif op == "set":
        a.set(st["i"], SCAL[st["x"]])
    elif op == "setitem":
        a[st["i"] - 6 if st.get("neg") else st["i"]] = SCAL[st["x"]]
    elif op == "setslice":
        v = np.array(PAL[st["k"]][3:6]) * 0.5
        lo = st["lo"]
        if st["vf"] == "col":
            a[lo:lo + 3] = v.reshape((3, 1))
        else:
            a[lo:lo + 3] = v
    elif op == "setQuat":
        a.setQuat(quat_of(st["k"]))
    elif op == "angleMod":
        a.angleMod()
        ev.bound[("angmod", tup(st["pre"]))] = np.asarray(a.TAA, dtype=float).reshape(6).copy()
    elif op == "copy":
        objs[t] = b.copy()
    elif op == "inv":
        objs[t] = a.inv()
    elif op == "matmul":
        if st["side"] == "tm":
            objs[t] = a @ b
        elif st["side"] == "rtm":
            objs[t] = b @ a
        else:
            objs[t] = a @ b.gTM()
    elif op == "addsub":
        w = st["w"]
        other = b if w == "tm" else (np.array(PAL[st["k"]], dtype=float) if w == "arr6" else SCAL[st["k"]])
        objs[t] = (a + other) if st["sg"] == "add" else (a - other)
    elif op == "muldiv":
        s = SCAL[st["s"]]
        objs[t] = a * s if st["f"] == "scale" else (s * a if st["f"] == "rscale" else a / s)
    elif op == "abs":
        objs[t] = abs(a)
    elif op == "floordiv":
        objs[t] = (a // b) if st["w"] == "tm" else (a // SCAL[st["s"]])
    elif op == "l2g":
        objs[t] = fsr.localToGlobal(b, a)
    elif op == "g2l":
        objs[t] = fsr.globalToLocal(b, a)
    else:
        raise ValueError(op)


def near_pi(m):
    try:
        return rf.in_log_band(np.asarray(m, dtype=float)[:3, :3])
    except Exception:
        return False


def check_history(beh):
    """Replay one history; returns None or a violation tuple."""
    from basic_robotics.general import tm
    ev = Eval()
    objs = {1: tm(), 2: tm()}
    h = beh["h"]
    tainted = False
    for i, st in enumerate(h):
        try:
            apply(objs, st, ev)
        except Exception as e:
            return ("raises", i, "%s: %s" % (type(e).__name__, e), None, [])
        for o in objs.values():
            if hasattr(o, "TM") and near_pi(o.TM):
                tainted = True
    final = [{"taa": tup(s["taa"]), "tm": tup(s["tm"])} for s in beh["s"]]
    # ... and on the specification side: any (intermediate) matrix term within 3e-5 of a half turn
    for slot in (1, 2):
        try:
            ev.mat(final[slot - 1]["tm"])
        except Exception:
            pass
    for v in list(ev.memo.values()):
        if getattr(v, "shape", None) == (4, 4) and rf.rot_angle(v[:3, :3]) > PI - 3e-5:
            tainted = True
    tags = ["log_near_pi"] if tainted else []
    for slot in (1, 2):
        o = objs[slot]
        exp = final[slot - 1]
        if not hasattr(o, "TM") or not hasattr(o, "TAA"):
            return ("result_is_transform", len(h) - 1, "slot %d holds %s" % (slot, type(o).__name__), None, tags)
        TM, TAA = np.asarray(o.TM), np.asarray(o.TAA)
        if TM.shape != (4, 4) or TAA.shape != (6, 1):
            return ("shapes", len(h) - 1, {"TM": TM.shape, "TAA": TAA.shape}, {"TM": (4, 4), "TAA": (6, 1)}, tags)
        try:
            em = ev.mat(exp["tm"])
            evv = ev.vec(exp["taa"]) if exp["taa"][0] != "log" else None
        except Ambiguous:
            em = evv = None        # value clauses undecidable for this history; structural clauses still apply
        if em is not None and (not np.all(np.isfinite(TM)) or np.abs(TM - em).max() > TOL):
            return ("matrix_value", len(h) - 1, TM.tolist(), em.tolist(), tags)
        if not rf.is_se3(TM, 1e-5):
            return ("matrix_in_SE3", len(h) - 1, TM.tolist(), None, tags)
        # the six-vector: translation directly, rotation through the exponential
        coh = rf.taa_to_tm(TAA.reshape(6))
        if np.abs(coh - TM).max() > TOL:
            return ("coherent", len(h) - 1, {"exp_of_TAA": coh.tolist(), "TM": TM.tolist()}, None, tags)
        if evv is not None:
            if np.abs(TAA.reshape(6) - evv).max() > TOL:
                return ("six_vector_value", len(h) - 1, TAA.reshape(6).tolist(), evv.tolist(), tags)
        # accessors agree with the fields
        if np.abs(o.gTM() - TM).max() > 0 or np.abs(o.gTAA() - TAA).max() > 0 or any(
                abs(float(o[i]) - float(TAA[i, 0])) > 0 for i in range(6)):
            return ("accessors", len(h) - 1, None, None, tags)
    return None


def check_chunk(chunk):
    out = []
    for beh in chunk:
        try:
            v = check_history(beh)
        except Exception as e:  # harness failure: surface it
            v = ("HARNESS", 0, "%s: %s" % (type(e).__name__, e), None, [])
        if v:
            out.append(({"h": beh["h"], "s": beh["s"]}, v))
    return out


def cfg(depth, forms, lits, scal, targets, s2, mode, ops="AllOps"):
    s = ("SPECIFICATION Spec\nCONSTANTS\n  Lits = %s\n  Forms <- %s\n  Ops <- %s\n  Scalars = %s\n  Targets <- %s\n"
         "  Slot2Ops <- %s\n  MaxDepth = %d\n" % (lits, forms, ops, scal, targets, s2, depth))
    if mode == "mc":
        s += "VIEW View\nINVARIANT Coherent\nINVARIANT Canonical\nPROPERTY OthersKeep\nPROPERTY ReadBack\n"
    else:
        s += "INVARIANT Dump\n"
    return s


def nontrivial(h):
    return any(st["op"] not in ("copy",) for st in h) and len(set((st["op"], st["t"]) for st in h)) >= min(2, len(h))


def run(ctx):
    import basic_robotics.general  # noqa: F401
    with ctx.timed("model"):
        r = tlc.run("TmObjectMC", cfg_text=cfg(3, "AllForms", "{3,4,5}", "{1,2}", "Both", "NoOps", "mc"), timeout=3000,
                    heap="8g")
    ctx.add_tlc("model depth 3", r)
    if not r.ok:
        ctx.model_violation("TmObject model", r)
    plans = [("depth1-all", cfg(1, "AllForms", "{1,2,3,4,5,6,7,8}", "{1,2,3}", "Both", "NoOps", "gen")),
             ("depth2-all", cfg(2, "AllForms", "{3,4,5,7}", "{1,2}", "Both", "NoOps", "gen")),
             ("depth3-wrap", cfg(3, "MiniForms", "{7,8}", "{2}", "One", "NoOps", "gen", "WrapOps")),
             # products of two rotations of pi - 1e-3 about orthogonal axes land 5e-7 from a half turn: the known
             # finding log_near_pi is reproduced by every run from these fixed histories
             ("depth3-nearpi", cfg(3, "MiniForms", "{4,6}", "{2}", "Both", "NoOps", "gen", "GroupOps"))]
    if ctx.quick:
        plans.append(("depth3-core", cfg(3, "MiniForms", "{4}", "{2}", "One", "CtorOps", "gen")))
    else:
        plans.append(("depth3-core", cfg(3, "CoreForms", "{3,4}", "{2}", "One", "CtorOps", "gen")))
        plans.append(("depth3-nearpi", cfg(3, "MiniForms", "{4,6}", "{2}", "Both", "NoOps", "gen", "GroupOps")))
    total = nontriv = 0
    steps = 0
    for name, c in plans:
        with ctx.timed("gen-" + name):
            g = tlc.run("TmObjectMC", cfg_text=c, timeout=3000, heap="10g")
        ctx.add_tlc("gen-" + name, g)
        if g.errors:
            ctx.model_violation("generation " + name, g)
        behs = g.json
        if not behs:
            ctx.machinery("no histories exported by " + name)
        total += len(behs)
        nontriv += sum(1 for b in behs if nontrivial(b["h"]))
        steps += sum(len(b["h"]) for b in behs)
        chunks = [behs[i:i + 400] for i in range(0, len(behs), 400)]
        with ctx.timed("replay-" + name):
            res = pmap(check_chunk, chunks)
        for chunk_out in res:
            for h, (clause, step, obs, exp, tags) in chunk_out:
                if clause == "HARNESS":
                    ctx.machinery("harness failure on %s: %s" % (h, obs))
                ctx.violation(clause, {"history": h["h"], "spec_state": h["s"], "step": step}, expected=exp, observed=obs,
                              tags=tags)
        ctx.sample({"plan": name, "history": behs[len(behs) // 3]["h"], "spec_state": behs[len(behs) // 3]["s"]}, cap=3)
    # long random histories from TLC's simulator: every prefix is exported (MaxDepth varies)
    n_sim = ctx.pick(40, 1500)
    sim_total = 0
    with ctx.timed("simulate"):
        for depth in ((4, 6, 9, 12) if ctx.quick else (4, 5, 6, 7, 8, 9, 10, 11, 12)):
            g = tlc.run("TmObjectMC", cfg_text=cfg(depth, "AllForms", "{1,2,3,4,5,7,8}", "{1,2,3}", "Both", "NoOps", "gen"),
                        simulate="num=%d" % (n_sim * (4 if ctx.quick else 1)), depth=depth + 1, seed=ctx.seed + depth,
                        workers=1 if ctx.quick else 4, timeout=600)   # one worker in the quick tier: reproducible behaviours
            ctx.add_tlc("simulate-depth%d" % depth, g)
            behs = g.json
            sim_total += len(behs)
            for h, (clause, step, obs, exp, tags) in check_chunk(behs):
                if clause == "HARNESS":
                    ctx.machinery("harness failure on %s: %s" % (h, obs))
                ctx.violation(clause, {"history": h["h"], "spec_state": h["s"], "step": step}, expected=exp, observed=obs,
                              tags=tags)
    if sim_total < n_sim:
        ctx.machinery("simulator exported only %d histories" % sim_total)
    return ctx.finish({
        "traces_validated_against_impl": total + sim_total, "evaluations": total + sim_total,
        "exhaustive_histories": total, "simulated_histories": sim_total, "distinct_nontrivial": nontriv,
        "impl_steps_executed": steps,
        "rule": "TLC enumerates every history over the operation alphabet to the stated depth (two live objects); "
                "distinct = distinct histories; non-trivial = at least two different (operation, slot) pairs "
                "(or a single non-copy operation at depth 1)", "exhaustive": True,
    }, assumptions=["RefEval (numpy/scipy) gives terms their float meaning", "angleMod's value is not specified by C03: "
                    "it is bound to the observed six-vector and only coherence is demanded of it",
                    "histories passing through an object whose rotation is within 3e-5 of a half turn are classified "
                    "under the known finding log_near_pi"])


def replay(ctx, rep):
    c = rep["case"]
    v = check_history({"h": c["history"], "s": c["spec_state"]})
    print("history:", c["history"])
    print("result:", v)
    if v:
        print("VIOLATION property=C03 replay=(replayed)")
        return 1
    return 0
