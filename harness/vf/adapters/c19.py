"""C19 - message router delivers each received message exactly once per active rule.

spec/CommsHub.tla is the abstract machine; this adapter
  1. model-checks it (TLC, action properties ExactlyOnce / NoDataQuiet / SpinSources / ReturnsChanged),
  2. replays every TLC-generated history (exhaustive to a depth, then -simulate) on a real
     basic_robotics Comms hub whose endpoints are in-memory transport doubles,
  3. records random long histories of the real hub (doubles and real UDP loopback sockets)
     and has TLC validate them against spec/CommsTrace.tla.
"""
import json
import random
import socket
import time

from vf import tlc

LEVEL = "model_checking"
ND = "ND"


# ------------------------------------------------------------------ the implementation side
_DOUBLE = []


def _mk_double_cls():
    if _DOUBLE:
        return _DOUBLE[0]
    _DOUBLE.append(_mk_double_cls0())
    return _DOUBLE[0]


def _mk_double_cls0():
    from basic_robotics.interfaces.comms_object import CommsObject

    class Double(CommsObject):
        """Transport double: getData pops a scripted inbox (ND / empty / closed = no data)."""

        def __init__(self, name, inbox):
            super().__init__(name, "double")
            self.inbox = list(inbox)
            self.calls = []
            self.open = True

        def sendData(self, data):
            self.calls.append(data)                # the hub handed the message over (that is what the model counts) ...
            return True if self.open else None     # ... and a closed transport reports it like the UDP bridge does: no success

        def getData(self):
            if not self.open or not self.inbox:
                return None
            m = self.inbox.pop(0)
            return None if m == ND else payload(m)

        def openCom(self):
            self.open = True
            return True

        def closeCom(self):
            self.open = False
            return True

    return Double


# Some message tokens of the model stand for FALSY payloads on the wire (a reading of 0, an empty string, ...): a message
# is a message whatever its truth value; only None is "no data".  Each falsy payload is used for one token, so the
# logs stay unambiguous.
FALSY = [0, "", 0.0, [], b"", (), False, {}, 0j]
PAYLOAD = {"m2": 0, "m4": "", "n2": 0.0, "n3": [], "p1": b""}
_rest = [v for v in FALSY if not any(type(v) is type(w) and v == w for w in PAYLOAD.values())]
for _i, _v in enumerate(_rest):
    PAYLOAD["m%d" % (13 + 9 * _i)] = _v          # tokens of the random traces (m0 .. m999)
_BACK = {(type(v).__name__, repr(v)): k for k, v in PAYLOAD.items()}


def payload(tok):
    v = PAYLOAD.get(tok, tok)
    return type(v)(v) if isinstance(v, (list, dict)) else v


def enc(m):
    if isinstance(m, str) and m != "":
        return m
    return _BACK.get((type(m).__name__, repr(m)), "!" + repr(m))


class Hub:
    """A real Comms hub with doubles, sinks and sources, driven by op records."""

    def __init__(self, endpoints, inbox, sinks, sources):
        from basic_robotics.interfaces.comms_core import Comms
        Double = _mk_double_cls()
        self.hub = Comms()
        self.names = list(endpoints)
        for n in endpoints:
            self.hub.endpoints[n] = Double(n, inbox[n])
        self.sink_log = {s: [] for s in sinks}
        # handles are bound methods: every mention builds a fresh (equal, not identical) object, as a caller re-registering
        # `subscriber.on_data` would - "already registered" is a matter of equality
        hub_self = self

        class _Sink:
            def __init__(self, s):
                self.s = s

            def on_data(self, v):
                hub_self.sink_log[self.s].append(v)

        class _Source:
            def __init__(self, s):
                self.s = s

            def produce(self):
                return self.s
        self._sinks = {s: _Sink(s) for s in sinks}
        self._sources = {s: _Source(s) for s in sources}

    def apply(self, op, a, b):
        h = self.hub
        if op == "setForwardData":
            return _b(h.setForwardData(a, b))
        if op == "deleteForwardingRule":
            return _b(h.deleteForwardingRule(a, b))
        if op == "setDataSink":
            return _b(h.setDataSink(a, self._sinks[b].on_data))
        if op == "setDataSource":
            return _b(h.setDataSource(a, self._sources[b].produce))
        if op == "getData":
            r = h.getData(a)
            return ND if r is None else enc(r)
        if op == "sendData":
            h.sendData(a, b)
            return ""
        if op == "spin":
            h.spin(1)
            return ""
        if op == "openCom":
            h.openCom(a)
            return ""
        if op == "closeCom":
            h.closeCom(a)
            return ""
        raise ValueError(op)

    def project(self):
        return {"sent": {n: [enc(m) for m in self.hub.endpoints[n].calls] for n in self.names},
                "sinkLog": {s: [enc(m) for m in v] for s, v in self.sink_log.items()},
                "inboxLen": {n: len(self.hub.endpoints[n].inbox) for n in self.names}}


def _b(x):
    return "T" if x is True else "F" if x is False else "!" + repr(x)


# ------------------------------------------------------------------ spec -> code
def replay_group(ctx, group, endpoints, inbox, sinks, sources, stats, soft=False):
    """group: behaviours with the same op sequence (they differ only in spec non-determinism).
    The code run must agree, step by step, with at least one of them."""
    hub = Hub(endpoints, inbox, sinks, sources)
    cands = group
    ops = group[0]
    for i, st in enumerate(ops):
        try:
            ret = hub.apply(st["op"], st["a"], st["b"])
        except Exception as e:  # the property: raises nothing
            ret = "!raise " + type(e).__name__ + ": " + str(e)
        obs = hub.project()
        stats["steps"] += 1
        nxt = [c for c in cands if c[i]["ret"] == ret and c[i]["post"] == obs]
        if not nxt and soft:
            return False
        if not nxt:
            exp = cands[0][i]
            ctx.violation(_clause(st["op"], exp, ret, obs),
                          {"kind": "replay", "endpoints": endpoints, "inbox": inbox, "sinks": sinks,
                           "sources": sources, "ops": [[s["op"], s["a"], s["b"]] for s in ops[:i + 1]]},
                          expected={"ret": exp["ret"], "post": exp["post"]}, observed={"ret": ret, "post": obs})
            return False
        cands = nxt
    return True


def _clause(op, exp, ret, obs):
    if ret.startswith("!raise"):
        return "raises_nothing"
    if ret != exp["ret"]:
        return "returns_changed" if op.startswith(("set", "delete")) else "return_value"
    if exp["ret"] == ND and op == "getData":
        return "no_data_quiet"
    if op == "spin":
        return "spin_delivery"
    return "exactly_once"


MC = dict(endpoints=["a", "b"], inbox={"a": ["m1", ND, "m2", "m3", "m4"], "b": ["n1", "n2", ND, "n3"]},
          sinks=["k1", "k2"], sources=["s1", "s2"])
MC3 = dict(endpoints=["a", "b", "c"], inbox={"a": ["m1", ND, "m2"], "b": ["n1", "n2"], "c": [ND, "p1"]},
           sinks=["k1", "k2"], sources=["s1", "s2"])


def cfg_text(depth, alphabet="AllOps", unknown="MCUnknown", mode="gen", three=False):
    s = "SPECIFICATION Spec\nCONSTANTS\n"
    s += "  Endpoints <- %s\n  Unknown <- %s\n  Sinks <- MCSinks\n  Sources <- MCSources\n" % (
        "MCEndpoints3" if three else "MCEndpoints", unknown)
    s += "  InitInbox <- %s\n  Alphabet <- %s\n  MaxDepth = %d\n" % ("MCInbox3" if three else "MCInbox", alphabet, depth)
    if mode == "mc":
        s += "VIEW View\nINVARIANT TypeOK\nPROPERTY ExactlyOnce\nPROPERTY NoDataQuiet\nPROPERTY SpinSources\n" \
             "PROPERTY ReturnsChanged\nPROPERTY OthersQuiet\n"
    else:
        s += "INVARIANT Dump\n"
    return s


def group_behaviours(js):
    groups = {}
    for b in js:
        h = b["h"]
        groups.setdefault(tuple((s["op"], s["a"], s["b"]) for s in h), []).append(h)
    return groups


def nontrivial(h):
    """A history is non-trivial if it changes a rule table and moves at least one message."""
    return any(s["ret"] == "T" for s in h) and any(
        any(v for v in s["post"]["sent"].values()) or any(v for v in s["post"]["sinkLog"].values()) for s in h)


# ------------------------------------------------------------------ code -> spec
def random_trace(rng, n_end, tid, length, udp=None):
    names = ["a", "b", "c", "d"][:n_end]
    sinks = ["k1", "k2", "k3"]
    sources = ["s1", "s2", "s3"]
    msgs = iter("m%d" % i for i in range(1000))
    inbox = {n: [ND if rng.random() < 0.25 else next(msgs) for _ in range(rng.randint(0, 25))] for n in names}
    hub = Hub(names, inbox, sinks, sources)
    allnames = names + ["zz"]
    ev = []
    for _ in range(length):
        r = rng.random()
        if r < 0.18:
            op, a, b = "setForwardData", rng.choice(allnames), rng.choice(allnames)
        elif r < 0.30:
            op, a, b = "deleteForwardingRule", rng.choice(allnames), rng.choice(allnames)
        elif r < 0.40:
            op, a, b = "setDataSink", rng.choice(allnames), rng.choice(sinks)
        elif r < 0.48:
            op, a, b = "setDataSource", rng.choice(allnames), rng.choice(sources)
        elif r < 0.70:
            op, a, b = "getData", rng.choice(allnames), ""
        elif r < 0.76:
            op, a, b = "sendData", rng.choice(allnames), "out"
        elif r < 0.92:
            op, a, b = "spin", "", ""
        elif r < 0.96:
            op, a, b = "openCom", rng.choice(names), ""
        else:
            op, a, b = "closeCom", rng.choice(names), ""
        try:
            ret = hub.apply(op, a, b)
        except Exception as e:
            ret = "!raise " + type(e).__name__ + ": " + str(e)
        ev.append({"op": op, "a": a, "b": b, "ret": ret, "post": hub.project()})
        if ret.startswith("!raise"):
            break
    return {"id": tid, "inbox": inbox, "ev": ev}


def record_ops(ops, env, tid):
    """Run an op sequence on the real hub and record it in the CommsTrace format."""
    hub = Hub(env["endpoints"], env["inbox"], ["k1", "k2", "k3"], ["s1", "s2", "s3"])
    ev = []
    for op, a, b in ops:
        try:
            ret = hub.apply(op, a, b)
        except Exception as e:
            ret = "!raise " + type(e).__name__ + ": " + str(e)
        ev.append({"op": op, "a": a, "b": b, "ret": ret, "post": hub.project()})
        if ret.startswith("!raise"):
            break
    return {"id": tid, "inbox": env["inbox"], "ev": ev}


def trace_cfg(n_end):
    return ("SPECIFICATION TraceSpec\nCONSTANTS\n  Endpoints <- EP%d\n  Unknown = {\"zz\"}\n"
            "  Sinks = {\"k1\",\"k2\",\"k3\"}\n  Sources = {\"s1\",\"s2\",\"s3\"}\n  InitInbox = 0\n"
            "  Alphabet <- TraceOps\n  MaxDepth = 100000\nINVARIANT Accept\nINVARIANT TypeOK\n"
            "PROPERTY ExactlyOnce\nPROPERTY NoDataQuiet\nPROPERTY ReturnsChanged\n") % n_end


def validate_traces(ctx, traces, n_end, tag):
    """TLC decides whether each recorded execution is a behaviour of CommsHub."""
    accepted = set()
    for lo in range(0, len(traces), 500):          # 500 traces (of up to 60 events) per TLC run: minutes each, whatever the tier
        path = tlc.write_json(traces[lo:lo + 500], "c19-%s-%d" % (tag, lo))
        r = tlc.run("CommsTrace", cfg_text=trace_cfg(n_end), env={"TRACE_FILE": path}, workers=8, timeout=1500)
        ctx.add_tlc("trace-%s-%d" % (tag, lo), r)
        for line in r.out.splitlines():
            if line.startswith('<<"ACCEPT"'):
                accepted.add(int(line.split(",")[1].strip(" >")))
        if r.errors and not r.violated:
            ctx.machinery("TLC error during trace validation:\n" + r.counterexample())
    bad = [t for t in traces if t["id"] not in accepted]
    for t in bad[:5]:
        k, exp = longest_prefix(t, n_end)
        ev = t["ev"][k] if k < len(t["ev"]) else None
        ctx.violation("trace_rejected:" + _trace_clause(ev), {"kind": "trace", "n_end": n_end, "trace": {
            "id": t["id"], "inbox": t["inbox"], "ev": [[e["op"], e["a"], e["b"]] for e in t["ev"][:k + 1]]}},
            expected="event %d is a step of CommsHub from the state after event %d" % (k + 1, k),
            observed=ev)
    if len(bad) > 5:
        ctx.violations += len(bad) - 5
    return len(traces) - len(bad)


def _trace_clause(ev):
    if ev is None:
        return "?"
    if ev["ret"].startswith("!raise"):
        return "raises_nothing"
    return {"getData": "delivery", "spin": "spin_delivery"}.get(ev["op"], "returns_changed")


def longest_prefix(t, n_end):
    """Re-run one rejected trace with progress printing: index of the first event TLC cannot match."""
    path = tlc.write_json([t], "c19-one")
    cfg = trace_cfg(n_end).replace("INVARIANT Accept\n", "INVARIANT Accept\nINVARIANT Progress\n")
    cfg = "\n".join(l for l in cfg.splitlines() if not l.startswith("PROPERTY")) + "\n"
    r = tlc.run("CommsTrace", cfg_text=cfg, env={"TRACE_FILE": path}, workers=1, timeout=300)
    best = 1
    for line in r.out.splitlines():
        if line.startswith('<<"AT"'):
            best = max(best, int(line.split(",")[2].strip(" >")))
    return best - 1, None


# ------------------------------------------------------------------ UDP loopback
def free_ports(n):
    socks, ports = [], []
    for _ in range(n):
        s = socket.socket(socket.AF_INET, socket.SOCK_DGRAM)
        s.bind(("127.0.0.1", 0))
        ports.append(s.getsockname()[1])
        socks.append(s)
    for s in socks:
        s.close()
    return ports


def udp_behaviour(ctx, rng, idx, stats):
    """Real UDPObject endpoints a,b on 127.0.0.1; an external peer injects datagrams and observes
    what each endpoint transmits.  A time-out is the natural 'no data'.  The expected result is
    computed by TLC: the run is logged as a CommsTrace trace (inbox = what the peer sent)."""
    from basic_robotics.interfaces.comms_core import Comms
    pa, pb, qa, qb = free_ports(4)
    hub = Comms()
    hub.newComPort("a", "UDP", "127.0.0.1", pa, qa, 0.03)
    hub.newComPort("b", "UDP", "127.0.0.1", pb, qb, 0.03)
    peer = {"a": socket.socket(socket.AF_INET, socket.SOCK_DGRAM), "b": socket.socket(socket.AF_INET, socket.SOCK_DGRAM)}
    peer["a"].bind(("127.0.0.1", qa))
    peer["b"].bind(("127.0.0.1", qb))
    for s in peer.values():
        s.settimeout(0.02)
    tx = socket.socket(socket.AF_INET, socket.SOCK_DGRAM)
    sink_log = {"k1": [], "k2": [], "k3": []}
    sink_fn = {s: (lambda v, _s=s: sink_log[_s].append(v)) for s in sink_log}
    src_fn = {s: (lambda _s=s: _s) for s in ("s1", "s2", "s3")}
    got = {"a": [], "b": []}
    pending = {"a": [], "b": []}     # datagrams sent to the endpoint and not yet received by it
    consumed = {"a": 0, "b": 0}
    inbox_log = {"a": [], "b": []}   # what each receive position yielded (message or ND) - the trace's inbox
    ev = []
    try:
        hub.openAll()
        n = 0
        for _ in range(rng.randint(4, 9)):
            r = rng.random()
            names = ["a", "b"]
            if r < 0.3:
                op, a, b = "setForwardData", rng.choice(names), rng.choice(names)
            elif r < 0.4:
                op, a, b = "deleteForwardingRule", rng.choice(names), rng.choice(names)
            elif r < 0.55:
                op, a, b = "setDataSink", rng.choice(names), rng.choice(["k1", "k2"])
            elif r < 0.65:
                op, a, b = "setDataSource", rng.choice(names), rng.choice(["s1", "s2"])
            elif r < 0.85:
                op, a, b = "getData", rng.choice(names), ""
            else:
                op, a, b = "spin", "", ""
            inj = None
            # the peer may inject one datagram before a receiving op
            if op in ("getData", "spin") and rng.random() < 0.65:
                tgt = a if op == "getData" else rng.choice(names)
                n += 1
                m = "u%d_%d" % (idx, n)
                tx.sendto(m.encode(), ("127.0.0.1", pa if tgt == "a" else pb))
                pending[tgt].append(m)
                inj = [tgt, m]
                time.sleep(0.004)
            before = {k: len(v) for k, v in pending.items()}
            try:
                if op == "setForwardData":
                    ret = _b(hub.setForwardData(a, b))
                elif op == "deleteForwardingRule":
                    ret = _b(hub.deleteForwardingRule(a, b))
                elif op == "setDataSink":
                    ret = _b(hub.setDataSink(a, sink_fn[b]))
                elif op == "setDataSource":
                    ret = _b(hub.setDataSource(a, src_fn[b]))
                elif op == "getData":
                    x = hub.getData(a)
                    ret = ND if x is None else enc(x)
                else:
                    hub.spin(1)
                    ret = ""
            except Exception as e:
                ret = "!raise " + type(e).__name__ + ": " + str(e)
            # drain what the endpoints transmitted to the peer
            for k in ("a", "b"):
                while True:
                    try:
                        d, _ = peer[k].recvfrom(2048)
                        got[k].append(d.decode())
                    except (TimeoutError, socket.timeout):
                        break
            ev.append({"op": op, "a": a, "b": b, "ret": ret, "inj": inj, "got": {k: list(v) for k, v in got.items()},
                       "sink": {k: [enc(m) for m in v] for k, v in sink_log.items()}})
            if ret.startswith("!raise"):
                break
    finally:
        for n_ in ("a", "b"):
            try:
                hub.endpoints[n_].comm_handle.close()
            except Exception:
                pass
        for s in list(peer.values()) + [tx]:
            s.close()
    stats["udp_ops"] += len(ev)
    return ev, pending


# ------------------------------------------------------------------ entry points
def run(ctx):
    import basic_robotics.interfaces.comms_core  # noqa: F401  (import errors are machinery failures)
    rng = random.Random(ctx.seed + 19)
    stats = {"steps": 0, "udp_ops": 0}
    # 1. the design: TLC checks the action properties on the model
    d_mc = ctx.pick(5, 6)
    with ctx.timed("model"):
        r = tlc.run("CommsHubMC", cfg_text=cfg_text(d_mc, mode="mc"), coverage=True, timeout=1500)
    ctx.add_tlc("model-depth%d" % d_mc, r)
    if not r.ok:
        ctx.model_violation("CommsHub model", r)
    never = [a for a in ("SetForward", "DeleteForward", "SetSink", "SetSource", "GetData", "SendData", "Spin",
                         "OpenCom", "CloseCom") if not r.coverage.get(a)]
    if never:
        ctx.machinery("actions never taken in the model run: %s" % never)
    action_cov = dict(r.coverage)

    # 2. spec -> code: exhaustive histories
    plans = [("all-ops-depth3", cfg_text(3), MC)]
    dd = ctx.pick(4, 5)
    plans.append(("forward-churn-depth%d" % dd, cfg_text(dd, "ChurnOps", "MCNoUnknown"), MC))
    plans.append(("sink-source-depth%d" % dd, cfg_text(dd, "SinkSrcOps", "MCNoUnknown"), MC))
    if not ctx.quick:
        plans.append(("core-ops-depth4", cfg_text(4, "CoreOps", "MCNoUnknown"), MC))
    plans.append(("3-endpoints-core-depth3", cfg_text(3, "CoreOps", "MCNoUnknown", three=True), MC3))
    n_beh = n_groups = n_nontriv = 0
    seen = set()
    for name, cfg, env in plans:
        with ctx.timed("gen-" + name):
            r = tlc.run("CommsHubMC", cfg_text=cfg, timeout=3000, heap="8g")
        ctx.add_tlc("gen-" + name, r)
        if r.errors:
            ctx.model_violation("generation " + name, r)
        groups = group_behaviours(r.json)
        if not groups:
            ctx.machinery("no behaviours exported by " + name)
        for key, grp in groups.items():
            n_groups += 1
            n_beh += len(grp)
            k = (name.startswith("3"), key)
            if k not in seen:
                seen.add(k)
                n_nontriv += 1 if any(nontrivial(h) for h in grp) else 0
            replay_group(ctx, grp, env["endpoints"], env["inbox"], env["sinks"], env["sources"], stats)
        if len(ctx.samples) < 2:
            for key, grp in groups.items():
                if nontrivial(grp[0]):
                    ctx.sample({"plan": name, "ops": [list(k) for k in key], "final": grp[0][-1]["post"]})
                    break
        del r

    # 2b. spec -> code: long random histories from TLC's simulator
    n_sim = ctx.pick(300, 20000)
    t_ = ctx.timed("simulate"); t_.__enter__()
    r = tlc.run("CommsHubMC", cfg_text=cfg_text(40), simulate="num=%d" % n_sim, depth=41, seed=ctx.seed + 7,
                workers=1 if ctx.quick else 8, timeout=1500)
    t_.__exit__()
    ctx.add_tlc("simulate-depth40", r)
    sim_groups = group_behaviours(r.json)
    if len(sim_groups) < min(50, n_sim // 2):
        ctx.machinery("simulator exported only %d behaviours" % len(sim_groups))
    undecided = []
    for key, grp in sim_groups.items():
        n_groups += 1
        n_beh += len(grp)
        n_nontriv += 1 if any(nontrivial(h) for h in grp) else 0
        if not replay_group(ctx, grp, MC["endpoints"], MC["inbox"], MC["sinks"], MC["sources"], stats, soft=True):
            # TLC's simulator resolved a spec non-determinism (stale-rule polling) one way and the code
            # the other way, or the code is wrong: let TLC decide by validating the recorded execution.
            undecided.append(record_ops(key, MC, len(undecided) + 1))
    if undecided:
        with ctx.timed("sim-undecided-traces"):
            validate_traces(ctx, undecided, 2, "sim")
    ctx.cov["simulated_histories_decided_by_trace_validation"] = len(undecided)

    # 3. code -> spec: random histories of the real hub, validated by TLC against CommsTrace
    n_tr = ctx.pick(80, 5000)
    n_traces = n_acc = 0
    for n_end in (1, 2, 3, 4):
        traces = [random_trace(rng, n_end, i + 1, 60) for i in range(n_tr)]
        n_traces += len(traces)
        with ctx.timed("traces-n%d" % n_end):
            n_acc += validate_traces(ctx, traces, n_end, "n%d" % n_end)
        if n_end == 3:
            ctx.sample({"trace": {"inbox": traces[0]["inbox"], "ev": [[e["op"], e["a"], e["b"], e["ret"]]
                                                                      for e in traces[0]["ev"][:12]]}})

    # 4. real UDP sockets on loopback
    with ctx.timed("udp"):
        n_udp, udp_ok = run_udp_checked(ctx, rng, ctx.pick(20, 500), stats)

    return ctx.finish({
        "traces_validated_against_impl": n_groups + n_acc + udp_ok,
        "behaviours_replayed_into_impl": n_beh, "distinct_op_sequences": n_groups,
        "distinct_nontrivial": n_nontriv, "evaluations": n_groups + n_traces + n_udp,
        "rule": "TLC enumerates every history over the op alphabet to the stated depth (plus simulated depth-40 "
                "histories); distinct = distinct op sequences; non-trivial = changes a rule table and delivers at "
                "least one message",
        "impl_steps_compared": stats["steps"], "recorded_traces": n_traces, "recorded_traces_accepted": n_acc,
        "udp_behaviours": n_udp, "udp_ops": stats["udp_ops"], "action_coverage": action_cov,
        "exhaustive": True,
    }, assumptions=["transport doubles subclass CommsObject: sendData records the call, getData pops a scripted inbox",
                    "Comms.endpoints is used to register doubles (public attribute)",
                    "delivery order among different destinations is not compared (per-destination logs)"])


def run_udp_checked(ctx, rng, count, stats):
    """UDP behaviours are checked against a direct reading of the spec's delivery rule computed from
    the logged rule tables: TLC validates the derived trace (see udp_to_trace)."""
    traces = []
    for i in range(count):
        ev, _ = udp_behaviour(ctx, rng, i, stats)
        t = udp_to_trace(ev, i + 1)
        if t is None:
            continue
        traces.append(t)
    if not traces:
        ctx.machinery("no UDP behaviour could be recorded")
    ok = validate_traces(ctx, traces, 2, "udp")
    ctx.sample({"udp_trace": [[e["op"], e["a"], e["b"], e["ret"]] for e in traces[0]["ev"]]})
    return len(traces), ok


def udp_to_trace(ev, tid):
    """Project a UDP run into the CommsTrace format.  The spec's inbox is what the peer injected,
    in order, with an ND token at every receive position reached while nothing was pending (a
    time-out).  Receive positions are getData(n) and, in a spin, every endpoint with an active
    rule.  A run in which a spin meets a stale, empty rule list is not projected (whether that
    endpoint is polled is unspecified and unobservable from outside)."""
    tokens = {"a": [], "b": []}
    pending = {"a": [], "b": []}
    fwd_key = set()
    fwd = {"a": [], "b": []}
    sinks = {"a": [], "b": []}
    polls = []
    for e in ev:
        op, a, b, ret = e["op"], e["a"], e["b"], e["ret"]
        if e.get("inj"):
            pending[e["inj"][0]].append(e["inj"][1])
        here = []
        if op == "getData" and a in tokens:
            here = [a]
        elif op == "spin":
            for n in ("a", "b"):
                if fwd[n] or sinks[n]:
                    here.append(n)
                elif n in fwd_key:
                    return None
        for n in here:
            tokens[n].append(pending[n].pop(0) if pending[n] else ND)
        polls.append(here)
        if op == "setForwardData" and ret == "T":
            fwd[a].append(b)
            fwd_key.add(a)
        if op == "deleteForwardingRule" and ret == "T":
            fwd[a].remove(b)
        if op == "setDataSink" and ret == "T":
            sinks[a].append(b)
    for n in tokens:                      # injected but never polled: still in the socket buffer
        tokens[n] += pending[n]
    left = {k: len(v) for k, v in tokens.items()}
    out = []
    for e, here in zip(ev, polls):
        for n in here:
            left[n] -= 1
        out.append({"op": e["op"], "a": e["a"], "b": e["b"], "ret": e["ret"], "post": {
            "sent": e["got"], "sinkLog": e["sink"], "inboxLen": dict(left)}})
    return {"id": tid, "inbox": tokens, "ev": out}


def replay(ctx, rep):
    case = rep["case"]
    if case["kind"] == "replay":
        hub = Hub(case["endpoints"], case["inbox"], case["sinks"], case["sources"])
        ret = None
        for op, a, b in case["ops"]:
            try:
                ret = hub.apply(op, a, b)
            except Exception as e:
                ret = "!raise " + type(e).__name__ + ": " + str(e)
        obs = {"ret": ret, "post": hub.project()}
        print("expected:", json.dumps(rep["expected"]))
        print("observed:", json.dumps(obs))
        if obs != rep["expected"]:
            print("VIOLATION property=C19 replay=(replayed) still reproduces")
            return 1
        print("no longer reproduces")
        return 0
    print("trace replays are re-validated by re-running the check with the same seed (%s)" % rep.get("seed"))
    return 0
