"""C10 - Stewart platform state stays coherent and 'valid' means valid over any history.

spec/Stewart.tla models the validate / corrective-action protocol step by step under adversarial
constraint outcomes; TLC checks Sound / Bounded / NoNestedCorrection for every switch subset (and
that a weakened re-validation breaks Sound).  Random histories of the real platform (IK in / out of
the workspace, FK in / out of range, both solvers, reverse FK, move, spinCustom, validate, the
force / Jacobian queries, randomPos, every subset of the four validation switches) are recorded at
the public call boundaries - the nested validate calls with their arguments, the verdict, and the
state projected through public getters: coherence residuals and the four constraint truths
recomputed by the harness - and validated by TLC against spec/StewartTrace.tla.
"""
import contextlib
import io
import math
import random

import numpy as np

from vf import tlc, refeval as rf, spzoo, trace as vtrace
from vf.par import pmap
from vf.adapters import c09

LEVEL = "model_checking"
PI = math.pi
CFG = 'SPECIFICATION TSpec\nCONSTANTS\n  Revalidate = "upto-k"\nINVARIANT Accept\n'
STAGES = {"validateLegs": 1, "validateContinuousTranslation": 2, "validateInteriorAngles": 3, "validatePlateRotation": 4}


def quiet():
    return contextlib.redirect_stdout(io.StringIO())


class Rec:
    """wraps the public validation methods of one platform instance and logs their nesting"""

    def __init__(self, sp):
        self.sp = sp
        self.depth = 0
        self.calls = []
        orig_validate = sp.validate

        def validate(donothing=False, validation_limit=4):
            self.depth += 1
            rec = {"d": self.depth, "fn": "validate", "k": 0, "dn": 1 if donothing else 0, "lim": int(validation_limit), "ret": -1}
            self.calls.append(rec)
            try:
                r = orig_validate(donothing, validation_limit)
                rec["ret"] = 1 if r else 0
                return r
            finally:
                self.depth -= 1
        sp.validate = validate
        for name, k in STAGES.items():
            orig = getattr(sp, name)

            def stage(valid=True, donothing=False, _orig=orig, _k=k):
                rec = {"d": self.depth, "fn": "stage", "k": _k, "dn": 1 if donothing else 0, "lim": 0, "ret": -1}
                self.calls.append(rec)
                r = _orig(valid, donothing)
                rec["ret"] = 1 if r else 0
                return r
            setattr(sp, name, stage)


def history(job):
    idx, seed, n_ops = job
    from basic_robotics.general import tm, Wrench
    rng = random.Random(seed)
    np.random.seed(seed % (2 ** 31))
    p = spzoo.params(rng)
    how = ["newSP", "loadSP"][idx % 2]
    base = np.eye(4) if idx % 3 == 0 else spzoo.rand_base(rng)
    with quiet():
        sp = spzoo.build(p, base, how, c09.TMP)
    sw_mask = idx % 16
    sw = [k for k in (1, 2, 3, 4) if sw_mask & (1 << (k - 1))]
    sp.validation_settings = [1 if k in sw else 0 for k in (1, 2, 3, 4)]
    neutral_rel = rf.trans_inv(sp.getBottomT().gTM()) @ sp.getTopT().gTM()
    h = float(neutral_rel[2, 3])
    bl, tl = spzoo.tables(sp)
    home_bt = (neutral_rel @ np.vstack([tl, np.ones((1, 6))]))[:3]                   # home top joints in the bottom frame
    home_tb = (rf.trans_inv(neutral_rel) @ np.vstack([bl, np.ones((1, 6))]))[:3]     # home bottom joints in the top frame
    rec = Rec(sp)
    ev = []
    last_spin = [0.0]

    def project(name, kind, verdict, raised, before):
        nonlocal bl, tl
        B, T = sp.getBottomT().gTM(), sp.getTopT().gTM()
        bj, tj = np.array(sp.getBottomJoints(), dtype=float), np.array(sp.getTopJoints(), dtype=float)
        lens = np.asarray(sp.getLens(), dtype=float).reshape(6)
        rel = sp.getCurrentLocalTransform().gTM()
        if name == "spinCustom" and not raised:
            Rz = rf.rot_exp([0, 0, last_spin[0]])     # a re-spin turns the plate-fixed points about the plate axis (C09's G0):
            bl, tl = Rz @ bl, Rz @ tl                  # computed, not read back from the platform
        want_l, pb, pt = spzoo.oracle_lens(bl, tl, B, T)
        scale = max(1.0, h)
        coh_j = float(max(np.abs(bj - pb).max(), np.abs(tj - pt).max())) / scale <= 1e-9
        coh_l = float(np.abs(lens - np.linalg.norm(tj - bj, axis=0)).max()) / scale <= 1e-9
        coh_r = float(np.abs(rel - rf.trans_inv(B) @ T).max()) / scale <= 1e-9
        # the four constraints, recomputed from public getters
        legs = bool(np.all(lens >= sp.leg_ext_min - 1e-9) and np.all(lens <= sp.leg_ext_max + 1e-9))
        relx = rf.trans_inv(B) @ T
        trans = bool(relx[2, 3] >= -1e-9)
        cur_bt = (relx @ np.vstack([tl, np.ones((1, 6))]))[:3]
        cur_tb = (rf.trans_inv(relx) @ np.vstack([bl, np.ones((1, 6))]))[:3]
        ang = []
        for i in range(6):
            for p2, p1, p3 in ((bl[:, i], cur_bt[:, i], home_bt[:, i]), (tl[:, i], cur_tb[:, i], home_tb[:, i])):
                v1, v2 = p1 - p2, p3 - p2
                cs = float(np.clip(np.dot(v1, v2) / (np.linalg.norm(v1) * np.linalg.norm(v2)), -1, 1))
                ang.append(abs(math.acos(cs)))
        angles = bool(max(ang) <= sp.joint_deflection_max + 1e-9)
        tilt = bool(all(relx[i, i] > sp.plate_rotation_limit - 1e-4 - 1e-9 for i in range(3)))
        # known finding log_near_pi: a plate pose (or the relative pose) within 1e-3 of a half turn loses up to
        # 5e-16/(pi-angle)^2 in the logarithm the library's frame arithmetic goes through (> 1e-9 inside 7e-4)
        nearpi = any(rf.rot_angle(M[:3, :3]) > PI - 1e-3 for M in (B, T, relx))
        # known finding exp_cutoff: the same frame arithmetic drops a relative plate rotation below the library's 1e-6 'near
        # zero' cut-off (a home-like pose reached by a corrective action is typically within 1e-6 rad of level)
        cutoff = 0 < rf.rot_angle(relx[:3, :3]) < 2e-6
        pure = 1
        if kind == "query":
            pure = 1 if (float(np.abs(B - before[0]).max()) <= 1e-9 and float(np.abs(T - before[1]).max()) <= 1e-9) else 0
        ev.append({"name": name, "kind": kind, "raised": 1 if raised else 0, "verdict": verdict,
                   "coh": [1 if coh_j else 0, 1 if coh_l else 0, 1 if coh_r else 0],
                   "con": [1 if legs else 0, 1 if trans else 0, 1 if angles else 0, 1 if tilt else 0], "sw": sw, "pure": pure,
                   "nearpi": 1 if nearpi else 0, "cutoff": 1 if cutoff else 0, "calls": [dict(c) for c in rec.calls]})

    ops = ["IK-in", "IK-out", "IK-out", "FK-in", "FK-out", "FK-out", "FK-reverse", "move", "spinCustom", "validate",
           "inverseJacobian", "staticForces", "carryMassCalc", "randomPos", "IK-protect"]
    for _ in range(n_ops):
        op = rng.choice(ops)
        rec.calls = []
        rec.depth = 0
        B0, T0 = sp.getBottomT().gTM(), sp.getTopT().gTM()
        base = B0
        verdict, raised, kind = "none", False, "mutator"
        msg = ""
        try:
            with quiet():
                if op == "IK-in":
                    _, v = sp.IK(top_plate_pos=tm(base @ spzoo.workspace_pose(rng, h)))
                    verdict = "valid" if v else "invalid"
                elif op == "IK-out":
                    far = rf.taa_to_tm([rng.uniform(-1, 1) * h, rng.uniform(-1, 1) * h, rng.uniform(-0.5, 2.5) * h,
                                        rng.uniform(-1.5, 1.5), rng.uniform(-1.5, 1.5), rng.uniform(-2, 2)])
                    _, v = sp.IK(top_plate_pos=tm(base @ far))
                    verdict = "valid" if v else "invalid"
                elif op == "IK-protect":
                    sp.IK(top_plate_pos=tm(base @ spzoo.workspace_pose(rng, h)), protect=True)
                elif op in ("FK-in", "FK-out", "FK-reverse"):
                    lo, hi = sp.leg_ext_min, sp.leg_ext_max
                    if op == "FK-out":
                        L = np.array([rng.uniform(lo * 0.6, hi * 1.3) for _ in range(6)])
                    else:
                        mid = rng.uniform(lo + 0.2 * (hi - lo), hi - 0.2 * (hi - lo))
                        L = np.array([mid + rng.uniform(-0.08, 0.08) * (hi - lo) for _ in range(6)])
                    _, v = sp.FK(L, reverse=(op == "FK-reverse"), fk_mode=rng.choice([0, 1]))
                    verdict = "valid" if v else "invalid"
                elif op == "move":
                    sp.move(tm(spzoo.rand_base(rng)))
                elif op == "spinCustom":
                    last_spin[0] = rng.uniform(-1.0, 1.0)
                    sp.spinCustom(last_spin[0])
                elif op == "validate":
                    v = sp.validate()
                    verdict = "valid" if v else "invalid"
                elif op == "inverseJacobian":
                    kind = "query"
                    sp.inverseJacobian()
                elif op == "staticForces":
                    kind = "query"
                    sp.staticForces(Wrench(np.array([rng.uniform(-50, 50) for _ in range(6)]).reshape((6, 1))))
                elif op == "carryMassCalc":
                    kind = "query"
                    sp.carryMassCalc(Wrench(np.array([rng.uniform(-50, 50) for _ in range(6)]).reshape((6, 1))))
                elif op == "randomPos":
                    sp.randomPos(max_attempts=6, min_deviation=rng.choice([PI / 10, 0.02]))
        except Exception as e:
            raised = True
            msg = "%s: %s" % (type(e).__name__, e)
        project(op, kind, verdict, raised, (B0, T0))
        if raised:
            ev[-1]["msg"] = msg
            break
    return {"id": idx + 1, "idx": idx, "n_ops": n_ops, "seed": seed, "how": how, "sw": sw, "ev": ev}


def strip(t):
    return {"id": t["id"], "ev": [{k: v for k, v in e.items() if k not in ("msg", "nearpi", "cutoff")} for e in t["ev"]]}


def clause_of(e):
    if e is None:
        return "trace_rejected"
    if e["raised"]:
        return "call_did_not_return_normally"
    if 0 in e["coh"]:
        return "incoherent:" + ",".join(n for n, v in zip(("joints", "lengths", "relative"), e["coh"]) if not v)
    if e["verdict"] == "valid" and any(e["con"][k - 1] == 0 for k in e["sw"]):
        return "valid_but_constraint_violated:" + ",".join(str(k) for k in e["sw"] if e["con"][k - 1] == 0)
    if e["kind"] == "query" and not e["pure"]:
        return "query_moved_a_plate"
    return "protocol_shape"


def probe_job(_):
    from basic_robotics.general import tm
    rng = random.Random(7)
    p = spzoo.params(rng)
    with quiet():
        sp = spzoo.build(p, np.eye(4), "newSP", c09.TMP)
        ax = np.array([0.36, 0.48, 0.8])
        T = rf.taa_to_tm([0.05, -0.02, float(sp.getTopT().gTM()[2, 3])] + list(ax * (PI - 3e-4)))
        sp.IK(top_plate_pos=tm(T.copy()), protect=True)
        rel = sp.getCurrentLocalTransform().gTM()
        want = rf.trans_inv(sp.getBottomT().gTM()) @ sp.getTopT().gTM()
    dev = float(np.abs(rel - want).max())
    with quiet():       # exp_cutoff: a top plate turned 5e-7 rad against the bottom plate
        h = float(sp.getTopT().gTM()[2, 3])
        sp.IK(top_plate_pos=tm(rf.taa_to_tm([0.0, 0.0, h] + list(ax * 5e-7))), bottom_plate_pos=tm(np.eye(4)), protect=True)
        rel2 = sp.getCurrentLocalTransform().gTM()
        want2 = rf.trans_inv(sp.getBottomT().gTM()) @ sp.getTopT().gTM()
    return dev, rel.tolist(), want.tolist(), float(np.abs(rel2 - want2).max()), rel2.tolist(), want2.tolist()


def known_probe(ctx):
    """Deterministic reproduction of log_near_pi on a platform: a top-plate pose whose rotation is pi - 3e-4 (protected
    IK, so nothing is corrected); the relative transform the platform reports differs from inv(bottom)*top by > 1e-9.
    Runs in a forked child: the platform kernels are numba-parallel and must not run in the parent before pmap forks."""
    dev, rel, want, dev2, rel2, want2 = pmap(probe_job, [0, 1], timeout=600)[0]      # two items: pmap runs a single one inline
    ctx.cov["known_finding_probe_deviation"] = {"log_near_pi": dev, "exp_cutoff": dev2}
    if dev > 1e-9 and "log_near_pi" in ctx.known:
        ctx.violation("incoherent:relative", {"probe": "log_near_pi"}, expected=want, observed=rel, tags=["log_near_pi"])
    if dev2 > 1e-9 and "exp_cutoff" in ctx.known:
        ctx.violation("incoherent:relative", {"probe": "exp_cutoff"}, expected=want2, observed=rel2, tags=["exp_cutoff"])


def run(ctx):
    import basic_robotics.kinematics  # noqa: F401
    for rv, expect_ok in (("upto-k", True), ("none", False)):
        cfg = ('SPECIFICATION Spec\nCONSTANTS\n  Revalidate = "%s"\nINVARIANT Sound\nINVARIANT Bounded\n'
               'INVARIANT NoNestedCorrection\n' % rv)
        with ctx.timed("model-" + rv):
            r = tlc.run("Stewart", cfg_text=cfg, timeout=1200, coverage=expect_ok)
        ctx.add_tlc("protocol model, revalidate=" + rv, r)
        if expect_ok and not r.ok:
            ctx.model_violation("Stewart protocol", r)
        if not expect_ok and "Sound" not in r.violated:
            ctx.machinery("the weakened protocol (no re-validation) did not violate Sound: the invariant is vacuous")
    known_probe(ctx)
    n_hist = ctx.pick(480, 8000)
    n_ops = ctx.pick(15, 25)
    with ctx.timed("histories"):
        traces = pmap(history, [(i, ctx.seed * 999983 + i, n_ops) for i in range(n_hist)], timeout=1100)
    with ctx.timed("validate"):
        acc, _ = vtrace.validate(ctx, "StewartTrace", CFG, [strip(t) for t in traces], "c10", timeout=1500, heap="8g")
    bad = [t for t in traces if t["id"] not in acc]
    summary = {}
    for t in bad:
        k, _ = (next((i for i, e in enumerate(t["ev"]) if clause_of(e) != "protocol_shape" or False), None), None)
        # first offending event by the harness' reading of the clauses (TLC already rejected the trace)
        k = None
        for i, e in enumerate(t["ev"]):
            c = clause_of(e)
            if c != "protocol_shape":
                k = i
                break
        if k is None:
            k, _ = vtrace.first_unmatched("StewartTrace", CFG, strip(t))
        e = t["ev"][k] if k < len(t["ev"]) else None
        c = clause_of(e)
        tags = ["log_near_pi"] if (c.startswith("incoherent") and any(x.get("nearpi") for x in t["ev"][:k + 1])) else []
        if c == "incoherent:relative" and e and e.get("cutoff"):
            tags.append("exp_cutoff")
        if tags and any(tg in ctx.known for tg in tags):
            ctx.violation(c, {"seed": t["seed"]}, tags=tags)        # prints the KNOWN-FINDING line once, counts nothing
            continue
        summary[(c, e["name"] if e else "?")] = summary.get((c, e["name"] if e else "?"), 0) + 1
        if sum(summary.values()) <= 5:
            ctx.violation(c, {"idx": t["idx"], "seed": t["seed"], "n_ops": t["n_ops"], "how": t["how"], "switches": t["sw"], "event_index": k,
                              "ops": [x["name"] for x in t["ev"][:k + 1]], "event": e},
                          expected="EventOK(event)", observed={kk: e[kk] for kk in ("verdict", "coh", "con", "pure", "raised")} if e else None)
        else:
            ctx.violations += 1
    for (c, n), v in sorted(summary.items()):
        print("  rejected: %-50s at %-16s %d trace(s)" % (c, n, v))
    evs = [e for t in traces for e in t["ev"]]
    names = {}
    for e in evs:
        names[e["name"]] = names.get(e["name"], 0) + 1
    corrective = sum(1 for e in evs if any(c["d"] == 2 for c in e["calls"]))
    if corrective < 5 or len(names) < 12:
        ctx.machinery("histories too tame: %d corrective paths, ops %s" % (corrective, names))
    ctx.sample({"history": [x["name"] for x in traces[0]["ev"]], "switches": traces[0]["sw"],
                "event": {k: v for k, v in traces[0]["ev"][1].items()} if len(traces[0]["ev"]) > 1 else None})
    return ctx.finish({
        "traces_validated_against_impl": len(traces), "accepted": len(acc), "evaluations": len(evs),
        "public_calls": len(evs), "calls_with_corrective_action": corrective, "ops": names,
        "switch_subsets": sorted(set(tuple(t["sw"]) for t in traces)), "distinct_nontrivial": len(traces),
        "rule": "random operation histories (IK in/out of workspace, FK in/out of range, both solvers, reverse FK, move, "
                "spinCustom, validate, inverseJacobian, staticForces, carryMassCalc, randomPos, protected IK) on "
                "random geometries for every subset of the four validation switches; every history is distinct and "
                "contains mutating calls (non-trivial)",
    }, assumptions=["constraint truths are recomputed from public getters (leg limits; z of inv(bottom)*top; leg deflection "
                    "against the neutral leg directions in the plate frames; diagonal of the relative rotation against "
                    "plate_rotation_limit - 1e-4)", "coherence judged at 1e-9 relative to max(1, neutral height)"])


def replay(ctx, rep):
    import basic_robotics.kinematics  # noqa: F401
    c = rep["case"]
    if "idx" not in c:
        print("replay file has no history index; re-run the check with seed", rep.get("seed"))
        return 0
    t = history((c["idx"], c["seed"], c["n_ops"]))
    for i, e in enumerate(t["ev"]):
        cl = clause_of(e)
        print(i, e["name"], e["verdict"], "coh", e["coh"], "con", e["con"], "nearpi", e["nearpi"], "" if cl == "protocol_shape" else "<-- " + cl)
    bad = [e for e in t["ev"] if clause_of(e) != "protocol_shape" and not (clause_of(e) == "incoherent:relative" and e.get("cutoff"))
           and not (clause_of(e).startswith("incoherent") and e.get("nearpi"))]
    if bad:
        print("VIOLATION property=C10 replay=(replayed)")
        return 1
    return 0
