"""C09 - Stewart platform: IK is exact geometry and FK inverts it.

Exact part : spec/StewartGeom.tla (QSE3) - TLC checks that leg lengths depend only on the relative
             plate pose, that a re-spin only re-labels plate coordinates, and exports the exact
             squared lengths of a lattice platform for every pose pair of its palette; a real SP
             built directly from the lattice tables must return those lengths.
Law trace  : over the geometries of the JSON / parametric / quick constructors and the ranges of
             the quantifier: G1 IK lengths = distances between plate-fixed joint points (tables
             read back through public getters), G2 rigid-motion invariance, G3 FK from neutral
             recovers every in-workspace pose and getLens() the request, for both FK solvers,
             identity and random base, before and after move and spinCustom.  Residuals are
             decided by TLC against spec/LawTrace.tla with coverage obligations.
"""
import contextlib
import io
import math
import os
import random

import numpy as np

from vf import tlc, refeval as rf, spzoo
from vf.law import LawLog
from vf.par import pmap
from vf.adapters.c01 import tf_mat

LEVEL = "model_checking"
TMP = os.path.join(tlc.CACHE, "sp")
BJ1 = np.array([[10, -2, 1], [10, 2, 1], [-3, 10, 1], [-7, 8, 1], [-7, -8, 1], [-3, -10, 1]], dtype=float).T
TJ1 = np.array([[4, -5, -1], [4, 5, -1], [2, 6, -1], [-6, 1, -1], [-6, -1, -1], [2, -6, -1]], dtype=float).T
GEOM_CFG = ("SPECIFICATION Spec\nCONSTANTS\n  BJ <- BJ1\n  TJ <- TJ1\n  GD = 1\n  Poses <- P1\n  Spins <- S1\n"
            "INVARIANT Invariance\nINVARIANT RelOnly\nINVARIANT Respin\nINVARIANT RowIdentity\nINVARIANT Dump\n")


def quiet():
    return contextlib.redirect_stdout(io.StringIO())


def exact_part(L, rows):
    from basic_robotics.general import tm
    from basic_robotics.kinematics.sp_model import SP
    with quiet():
        sp = SP(BJ1.copy(), TJ1.copy(), tm(), tm([0, 0, 12, 0, 0, 0]), 3.0, 40.0, 1.0, 1.0, "lattice")
    for r in rows:
        B, T = tf_mat(r["B"]), tf_mat(r["T"])
        with quiet():
            lens, _ = sp.IK(top_plate_pos=tm(T.copy()), bottom_plate_pos=tm(B.copy()), protect=True)
        want = np.array([x["n"] / x["d"] for x in r["len2"]])
        got = np.asarray(lens, dtype=float).reshape(6) ** 2
        L.log("IK lengths^2 = exact", "lattice", float(np.abs(got - want).max() / max(1.0, want.max())), 1e-9,
              {"B": r["B"], "T": r["T"]})
        gl = np.asarray(sp.getLens(), dtype=float).reshape(6) ** 2
        L.log("getLens^2 = exact", "lattice", float(np.abs(gl - want).max() / max(1.0, want.max())), 1e-9, {"B": r["B"], "T": r["T"]})
    L.require("IK lengths^2 = exact", "lattice", len(rows))


def geometry_job(job):
    """One geometry through the law battery; returns a list of (law, region, resid, tol, case)."""
    idx, seed, n_poses = job
    from basic_robotics.general import tm
    rng = random.Random(seed)
    np.random.seed(seed % (2 ** 31))
    p = spzoo.params(rng)
    how = ["newSP", "loadSP", "makeSP"][idx % 3] if idx % 7 else "newSP"
    base = np.eye(4) if idx % 2 == 0 else spzoo.rand_base(rng)
    ev = []
    case0 = {"params": p, "how": how, "base": base.tolist(), "seed": seed}
    try:
        with quiet():
            sp = spzoo.build(p, base, how, TMP)
    except Exception as e:
        return [("constructs", how, float("inf"), 1.0, dict(case0, raised="%s: %s" % (type(e).__name__, e)))]
    ev.append(("constructs", how, 0.0, 1.0, case0))
    neutral_rel = rf.trans_inv(sp.getBottomT().gTM()) @ sp.getTopT().gTM()
    h = float(neutral_rel[2, 3])
    stage_list = ["fresh", "moved", "respun"]
    prev_tables, spin = None, 0.0
    for stage in stage_list:
        with quiet():
            if stage == "moved":
                base = spzoo.rand_base(rng)
                sp.move(tm(base.copy()))
            elif stage == "respun":
                spin = rng.uniform(-1.0, 1.0)
                sp.spinCustom(spin)
                base = sp.getBottomT().gTM()
            # back to neutral on the current base, then read the plate-fixed tables through the getters
            sp.IK(top_plate_pos=tm(base @ neutral_rel), bottom_plate_pos=tm(base.copy()), protect=True)
        bl, tl = spzoo.tables(sp)
        # G0: WHICH points are plate-fixed.  The constructors' parameters say it (joint circle radius, angular spacing of the
        # paired joints in degrees, plate thickness = joint height over / under the plate origin); a base move leaves the
        # plate coordinates alone, a re-spin turns both plates' joints about the plate axis by the requested angle.
        g0reg = "%s|%s" % (how, stage)
        sc = max(1.0, p["rb"])
        if stage == "fresh" and how in ("newSP", "loadSP"):
            # (handedness -1 builds the mirror assembly: the two plates exchange their angular patterns, spacings included)
            gb, gt = (p["bsp"], p["tsp"]) if p["rot"] == 1 else (p["tsp"], p["bsp"])
            for nm, t, rad, gap, z in (("bottom", bl, p["rb"], gb, p["bth"]), ("top", tl, p["rt"], gt, -p["tth"])):
                ang = np.sort(np.degrees(np.arctan2(t[1], t[0])) % 360.0)
                gaps = np.sort(np.append(np.diff(ang), ang[0] + 360.0 - ang[-1]))
                ev.append(("G0 %s joints on the circle of the given radius" % nm, g0reg, float(np.abs(np.hypot(t[0], t[1]) - rad).max()) / sc, 1e-9, case0))
                ev.append(("G0 %s joints at the plate thickness" % nm, g0reg, float(np.abs(t[2] - z).max()) / sc, 1e-9, case0))
                ev.append(("G0 %s joint pairs spaced as given, pairs 120 deg apart" % nm, g0reg,
                           float(np.abs(gaps - np.sort([gap] * 3 + [120.0 - gap] * 3)).max()), 1e-7, case0))
        if prev_tables is not None:
            pb0, pt0 = prev_tables
            if stage == "moved":
                ev.append(("G0 a base move leaves the plate-fixed points alone", g0reg,
                           float(max(np.abs(bl - pb0).max(), np.abs(tl - pt0).max())) / sc, 1e-9, case0))
            else:
                Rz = rf.rot_exp([0, 0, spin])
                ev.append(("G0 a re-spin turns both joint sets by the requested angle", g0reg,
                           float(max(np.abs(bl - Rz @ pb0).max(), np.abs(tl - Rz @ pt0).max())) / sc, 1e-9, dict(case0, spin=spin)))
        prev_tables = (bl.copy(), tl.copy())
        for k in range(n_poses):
            rel = spzoo.workspace_pose(rng, h)
            T = base @ rel
            reg = "%s|%s|%s" % (how, "identity-base" if np.allclose(base, np.eye(4)) else "placed", stage)
            case = dict(case0, stage=stage, base=base.tolist(), rel=rel.tolist())
            with quiet():
                lens, valid = sp.IK(top_plate_pos=tm(T.copy()), bottom_plate_pos=tm(base.copy()))
            lens = np.asarray(lens, dtype=float).reshape(6)
            accepted = bool(valid) and float(np.abs(sp.getTopT().gTM() - T).max()) < 1e-9   # no corrective action
            want, _, _ = spzoo.oracle_lens(bl, tl, base, T)
            ev.append(("G1 IK lengths = joint distances", reg, float(np.abs(lens - want).max()) / max(1.0, h), 1e-9, case))
            # G2: the same relative pose after a common rigid motion G (query on explicit plate poses)
            G = spzoo.rand_base(rng, 3.0)
            with quiet():
                l2, _ = sp.IK(top_plate_pos=tm(G @ T), bottom_plate_pos=tm(G @ base), protect=True)
                sp.IK(top_plate_pos=tm(T.copy()), bottom_plate_pos=tm(base.copy()), protect=True)
            ev.append(("G2 rigid-motion invariance", reg, float(np.abs(np.asarray(l2).reshape(6) - lens).max()) / max(1.0, h), 1e-9, case))
            if not accepted:
                ev.append(("pose outside workspace (skipped)", reg, 0.0, 1.0, case))
                continue
            for mode in (0, 1):
                with quiet():
                    sp.IK(top_plate_pos=tm(base @ neutral_rel), bottom_plate_pos=tm(base.copy()), protect=True)   # neutral
                    try:
                        top, v = sp.FK(lens.copy(), fk_mode=mode)
                        got = top.gTM()
                        err = float(np.abs(got - T).max()) / h
                        lerr = float(np.abs(np.asarray(sp.getLens()).reshape(6) - lens).max()) / h
                    except Exception as e:
                        err = lerr = float("inf")
                        case = dict(case, raised="%s: %s" % (type(e).__name__, e))
                ev.append(("G3 FK recovers the pose (fk_mode %d)" % mode, reg, err, 1e-3, case))
                ev.append(("G3 lengths reported = requested (fk_mode %d)" % mode, reg, lerr, 1e-3, case))
            # G3x: the same lengths solved over an explicitly given base pose that is NOT where the platform stands: the top
            # pose is that base times the relative pose, the lengths and joints reported afterwards belong to that base
            if k == 0:
                B2 = spzoo.rand_base(rng)
                mode = rng.choice([0, 1])
                with quiet():
                    sp.IK(top_plate_pos=tm(base @ neutral_rel), bottom_plate_pos=tm(base.copy()), protect=True)
                    try:
                        top, v = sp.FK(lens.copy(), plate_pos=tm(B2.copy()), fk_mode=mode)
                        err = float(np.abs(top.gTM() - B2 @ rel).max()) / h
                        lerr = float(np.abs(np.asarray(sp.getLens()).reshape(6) - lens).max()) / h
                        _, pb2, pt2 = spzoo.oracle_lens(bl, tl, sp.getBottomT().gTM(), sp.getTopT().gTM())
                        jerr = float(max(np.abs(np.array(sp.getBottomJoints(), dtype=float) - pb2).max(),
                                         np.abs(np.array(sp.getTopJoints(), dtype=float) - pt2).max())) / h
                        berr = float(np.abs(sp.getBottomT().gTM() - B2).max())
                    except Exception as e:
                        err = lerr = jerr = berr = float("inf")
                        case = dict(case, raised="%s: %s" % (type(e).__name__, e))
                    sp.IK(top_plate_pos=tm(T.copy()), bottom_plate_pos=tm(base.copy()), protect=True)
                cx = dict(case, B2=B2.tolist(), fk_mode=mode)
                ev.append(("G3x FK over an explicit base recovers the pose", reg, err, 1e-3, cx))
                ev.append(("G3x lengths reported = requested", reg, lerr, 1e-3, cx))
                ev.append(("G3x joints reported belong to the plates' poses", reg, jerr, 1e-9, cx))
                ev.append(("G3x the platform stands on the given base", reg, berr, 1e-9, cx))
    return ev


def run(ctx):
    import basic_robotics.kinematics  # noqa: F401
    rng = random.Random(ctx.seed + 9)
    with ctx.timed("tlc-geometry"):
        r = tlc.run("StewartGeomMC", cfg_text=GEOM_CFG, timeout=1200)
    ctx.add_tlc("exact platform geometry (invariance, respin, row identity)", r)
    if not r.ok:
        ctx.model_violation("StewartGeom", r)
    L = LawLog()
    n_geo = ctx.pick(96, 2000)
    n_pose = ctx.pick(4, 20)
    with ctx.timed("geometries"):   # (before any SP kernel runs in this process: numba's parallel kernels do not survive a fork)
        res = pmap(geometry_job, [(i, ctx.seed * 1000003 + i, n_pose) for i in range(n_geo)], timeout=900)
    with ctx.timed("exact-replay"):
        exact_part(L, r.json)
    for out in res:
        for law, reg, resid, tol, case in out:
            L.log(law, reg, resid, tol, case)
    hows = ("newSP", "loadSP", "makeSP")
    for how in hows:
        L.require("constructs", how, 2)
    for law in ("G1 IK lengths = joint distances", "G2 rigid-motion invariance", "G3 FK recovers the pose (fk_mode 0)",
                "G3 FK recovers the pose (fk_mode 1)"):
        for reg in ("newSP|identity-base|fresh", "newSP|placed|moved", "newSP|placed|respun", "loadSP|placed|respun"):
            L.require(law, reg, 2)
    for law in ("G3x FK over an explicit base recovers the pose", "G3x lengths reported = requested",
                "G3x joints reported belong to the plates' poses", "G3x the platform stands on the given base"):
        for reg in ("newSP|identity-base|fresh", "newSP|placed|moved", "loadSP|placed|respun"):
            L.require(law, reg, 2)
    for how in ("newSP", "loadSP"):
        for nm in ("bottom", "top"):
            for law in ("G0 %s joints on the circle of the given radius", "G0 %s joints at the plate thickness",
                        "G0 %s joint pairs spaced as given, pairs 120 deg apart"):
                L.require(law % nm, how + "|fresh", 3)
        L.require("G0 a base move leaves the plate-fixed points alone", how + "|moved", 3)
        L.require("G0 a re-spin turns both joint sets by the requested angle", how + "|respun", 3)
    with ctx.timed("lawtrace"):
        counts = L.decide(ctx, tag="c09")
    skipped = sum(v for (law, _), v in counts.items() if law.startswith("pose outside"))
    g3 = sum(v for (law, _), v in counts.items() if law.startswith("G3 FK"))
    ctx.sample({"exact_case": {k: r.json[3][k] for k in ("B", "T", "len2")}})
    ctx.sample({"geometry_event": {"law": L.events[-1][0], "region": L.events[-1][1], "case": L.events[-1][4]}})
    return ctx.finish({
        "traces_validated_against_impl": len(r.json) + n_geo, "evaluations": len(L.events), "geometries": n_geo,
        "exact_pose_pairs": len(r.json), "fk_round_trips": g3, "poses_outside_workspace_skipped": skipped,
        "distinct_nontrivial": len(set((e[0], e[1], repr(e[4])) for e in L.events)),
        "rule": "geometries drawn from the quantifier's ranges through newSP / loadSP(JSON) / makeSP at identity and random "
                "bases; per geometry three stages (fresh, moved, re-spun) x n relative poses inside the stated workspace; "
                "distinct = distinct (law, region, arguments)",
    }, assumptions=["plate-fixed joint tables are read back through getBottomJoints()/getTopJoints() at a known pose",
                    "'accepted without corrective action' = IK returned valid and the stored top pose is the requested one",
                    "pose/length recovery judged at 1e-3 of the neutral height as the property states"])


def replay(ctx, rep):
    print("re-run the check with the same seed; case:", rep["case"])
    return 0
