"""C07 - arm inverse kinematics never claims a pose it has not reached.

spec/Arm.tla carries the IK postcondition IKPost (success => both errors within the configured
tolerances, limit-respecting answer inside the limits, state = solution, never for a goal beyond
reach; failure => coherent state; near a well-conditioned in-limit solution => success).
Randomised IK campaigns on real arms are recorded (code -> spec) and TLC validates every trace
against spec/ArmTrace.tla.  Goals "between the tolerances" are generated on purpose (start at the
solution, goal offset by 1e-3 in position only / orientation only, with the two tolerances four
orders of magnitude apart): the only way a swap of the tolerances is visible.
"""
import contextlib
import io
import math
import random

import numpy as np

from vf import tlc, zoo, refeval as rf, trace as vtrace
from vf.adapters import c05
from vf.par import pmap
from vf.armrun import free_indices as armrun_free, pose_tol as armrun_pose_tol

LEVEL = "model_checking"
PI = math.pi
# (pos_tol, rot_tol); nothing below 1e-5: the library's exp/log cut-off makes errors under 1e-6 invisible to the solver
TOLSETS = {"default": (1e-4, 1e-5), "p-2r-5": (1e-2, 1e-5), "p-5r-2": (1e-5, 1e-2)}
CAP = 2 ** 30
_MAKERS = {}


def q(x):
    return CAP if not (x == x) or x > CAP else int(math.ceil(x))


def campaign(job):
    name, seed, n_ik = job
    from basic_robotics.general import tm
    rng = random.Random(seed)
    arm, spec, base0 = _MAKERS[name]()
    n = spec["S"].shape[1]
    ev = []
    bases = {0: base0, 1: zoo.rand_pose(rng, 3.0), 2: zoo.rand_pose(rng, 1.0, 1.0)}
    base, tool_local, toolkind = base0, spec["M"], "orig"
    tainted = False
    inside = lambda m=0.9: np.array([rng.uniform(spec["mins"][i] * m, spec["maxs"][i] * m) for i in range(n)])
    with contextlib.redirect_stdout(io.StringIO()):
        if rng.random() < 0.6:
            b = rng.choice([1, 2])
            arm.move(tm(bases[b].copy()))
            base = bases[b]
            ev.append({"op": "move", "b": b, "toolkind": "orig"})
        thN = None
        if rng.random() < 0.4:
            thN = inside()
            N = zoo.rand_pose(rng, 2.0, 2.5)
            N[:3, 3] += base[:3, 3]
            arm.setArbitraryHome(tm(N.copy()), thN.copy())
            P = rf.poe_space(np.eye(4), spec["S"], zoo.clamp(spec, thN))
            E = base @ P @ tool_local
            home = base @ tool_local
            for m in (E, N, rf.trans_inv(E) @ N, home, home @ rf.trans_inv(E) @ N):
                if rf.rot_angle(m[:3, :3]) > PI - 1e-3:
                    tainted = True      # known finding log_near_pi: the new home pose is only accurate to ~1e-7..1e-4
            tool_local = rf.trans_inv(P) @ rf.trans_inv(base) @ N
            ev.append({"op": "setArbitraryHome", "n": 1, "th": 1})
        reach = float(np.linalg.norm(tool_local[:3, 3])) + float(np.abs(spec["S"][3:]).sum()) + 1.0
        for k in range(n_ik):
            tolset = rng.choice(list(TOLSETS))
            arm.pos_tolerance, arm.rot_tolerance = TOLSETS[tolset]
            path = rng.choice(["constrained", "constrained", "free", "free", "IKFree", "constrained"])
            entry = "IK" if path != "constrained" or rng.random() < 0.6 else "constrainedIK"
            g = rng.choice(["reach", "reach", "reach", "between-pos", "between-rot", "beyond", "boundary"])
            th_star = inside(0.8)
            if g == "boundary":
                th_star = inside(0.8)
                i = rng.randrange(n)
                th_star[i] = spec["maxs"][i] if rng.random() < 0.5 else spec["mins"][i]
            goal = zoo.fk_expected(spec, base, tool_local, th_star)
            s = rng.choice(["near", "far", "random", "current"])     # current: no start vector given - the solver starts from the arm's state
            if s == "current" and path == "IKFree":
                s = "random"
            if g in ("between-pos", "between-rot"):
                s = "exact"
                if g == "between-pos":
                    goal = goal.copy()
                    d = np.array([rng.gauss(0, 1) for _ in range(3)])
                    goal[:3, 3] += d / np.linalg.norm(d) * 1e-3
                    tolset = "p-5r-2"
                else:
                    d = np.array([rng.gauss(0, 1) for _ in range(3)])
                    goal = goal.copy()
                    goal[:3, :3] = goal[:3, :3] @ rf.rot_exp(d / np.linalg.norm(d) * 1e-3)
                    tolset = "p-2r-5"
                arm.pos_tolerance, arm.rot_tolerance = TOLSETS[tolset]
            if g == "beyond":
                goal = goal.copy()
                d = np.array([rng.gauss(0, 1) for _ in range(3)])
                goal[:3, 3] = base[:3, 3] + d / np.linalg.norm(d) * (3 * reach + 5.0)
            if s == "near":
                start = zoo.clamp(spec, th_star + np.array([rng.uniform(-1, 1) for _ in range(n)]) * 0.02 / math.sqrt(n))
            elif s == "far":
                start = zoo.clamp(spec, th_star + np.array([rng.uniform(-1.5, 1.5) for _ in range(n)]))
            elif s == "exact":
                start = th_star.copy()
            else:
                start = inside()
            given = start.copy()
            if s == "current":
                with contextlib.redirect_stdout(io.StringIO()):
                    arm.FK(start.copy())       # park the arm there; the call below passes no start vector
                given = None
            restarts = rng.random() < 0.5
            random.seed(rng.randrange(1 << 30))
            pos_tol, rot_tol = TOLSETS[tolset]
            try:
                if entry == "constrainedIK":
                    th, ok = arm.constrainedIK(tm(goal.copy()), given, check=restarts)
                elif path == "constrained":
                    th, ok = arm.IK(tm(goal.copy()), given, check=restarts)
                elif path == "free":
                    th, ok = arm.IK(tm(goal.copy()), given, check=restarts, protect=True)
                else:
                    th, ok = arm.IKFree(tm(goal.copy()), start.copy(), armrun_free(rng, n))
            except Exception as e:
                ev.append({"op": "Raise", "msg": "%s: %s" % (type(e).__name__, e), "path": path, "g": g})
                break
            th = np.array(th, dtype=float).reshape(-1)       # a copy: the library clamps its stored vector in place later on
            inlim = bool(np.all(th >= spec["mins"] - 1e-9) and np.all(th <= spec["maxs"] + 1e-9))
            # pose of the returned vector (the limit-respecting path is evaluated clamped, as FK would)
            thc = zoo.clamp(spec, th) if path != "free" else th
            Tret = base @ rf.poe_space(np.eye(4), spec["S"], thc) @ tool_local
            D = rf.trans_inv(Tret) @ goal
            ang = rf.rot_angle(D[:3, :3])
            vb = rf.se3_log(D)[3:]
            vs = (rf.adjoint(Tret) @ rf.se3_log(D))[3:]
            pos = min(float(np.linalg.norm(goal[:3, 3] - Tret[:3, 3])), float(np.linalg.norm(vb)), float(np.linalg.norm(vs)))
            # a returned vector with angles of 1e7..1e11 rad (free solvers do that) has a pose only up to a few of its own
            # ulps: that float ambiguity is not charged to the solver
            slack = armrun_pose_tol(thc, 0.0) - armrun_pose_tol(np.zeros(1), 0.0)
            ang, pos = max(0.0, ang - slack), max(0.0, pos - slack * (1.0 + reach))
            ee = arm.getEEPos().gTM()
            jt = arm.getJointTransforms()[-1].gTM()
            coh = float(np.abs(ee - jt).max()) <= 1e-7
            stateis = float(np.abs(ee - Tret).max()) <= armrun_pose_tol(thc, reach) and (coh or path == "free")
            J = zoo.jac_space_expected(spec, base, zoo.clamp(spec, th_star))
            smin = float(np.linalg.svd(J, compute_uv=False)[min(6, n) - 1]) if n >= 1 else 0.0
            margin = float(np.min(np.minimum(th_star - spec["mins"], spec["maxs"] - th_star)))
            wellcond = (n >= 6 and smin >= 0.05 and margin >= 0.15 and g == "reach")
            tiny = bool(np.any((np.abs(th) > 0) & (np.abs(th) < 1e-6)))   # known finding exp_cutoff
            ev.append({"op": "IK", "g": "reach" if g.startswith("between") else g, "gen": g, "s": s, "path": path, "tiny": tiny, "entry": entry,
                       "tolset": tolset, "restarts": 1 if restarts else 0, "ok": 1 if ok else 0,
                       "ang": q(ang / rot_tol * 1000), "pos": q(pos / pos_tol * 1000), "inlim": 1 if inlim else 0,
                       "coh": 1 if coh else 0, "stateis": 1 if stateis else 0, "wellcond": 1 if wellcond else 0,
                       "detail": {"theta": th.tolist(), "goal": goal.tolist(), "start": start.tolist(),
                                  "ang": ang, "pos": pos, "pos_tol": pos_tol, "rot_tol": rot_tol}})
            if path == "free" and ok and not inlim:
                # the limit-ignoring solver ended outside the limits: limit-aware queries clamp that state.
                # Re-establish an in-limit state with a legal call before the campaign goes on.
                arm.FK(np.zeros(n))
    return {"id": 0, "arm": name, "seed": seed, "ev": ev, "tainted": tainted}


CFG = ("SPECIFICATION TSpec\nCONSTANTS\n  Bases = {1, 2}\n  Thetas = {1, 2, 3}\n  Tools = {1, 2}\n  Goals = {\"reach\"}\n"
       "  Ops = {\"IK\"}\n  MaxDepth = 100000\nINVARIANT Accept\nINVARIANT TypeOK\n")


def strip(t):
    return {"id": t["id"], "ev": [{k: v for k, v in e.items() if k not in ("detail", "gen", "tolset", "restarts", "tiny", "entry")} for e in t["ev"]]}


def run(ctx):
    global _MAKERS
    import basic_robotics.kinematics  # noqa: F401
    with ctx.timed("model"):
        r = tlc.run("ArmMC", cfg_text=c05.cfg(ctx.pick(4, 5), "AllOps", "mc", "G3"), timeout=3000, heap="8g")
    ctx.add_tlc("Arm model with IK in the middle of histories", r)
    if not r.ok:
        ctx.model_violation("Arm model", r)
    from vf import armrun
    armrun.known_probes(ctx)
    mk = c05.makers(ctx)
    _MAKERS = dict(mk)
    per_arm = ctx.pick(12, 400)
    n_ik = ctx.pick(12, 40)
    jobs = [(name, ctx.seed * 100000 + 1000 * a + i, n_ik) for a, (name, _) in enumerate(mk) for i in range(per_arm)]
    with ctx.timed("campaigns"):
        traces = pmap(campaign, jobs)
    for i, t in enumerate(traces):
        t["id"] = i + 1
    with ctx.timed("validate"):
        acc, _ = vtrace.validate(ctx, "ArmTrace", CFG, [strip(t) for t in traces], "c07")
    bad = [t for t in traces if t["id"] not in acc]
    reported = 0
    for t in bad:
        # the first event IKPost rejects, by the harness' reading of the clauses; TLC is asked for it for the traces
        # that are reported in full
        k = next((i for i, e in enumerate(t["ev"]) if e["op"] == "Raise" or (e["op"] == "IK" and not ik_post(e))), None)
        if k is None or reported < 5:
            k, _ = vtrace.first_unmatched("ArmTrace", CFG, strip(t))
        e = t["ev"][k] if k < len(t["ev"]) else None
        tags = (["log_near_pi"] if t.get("tainted") else []) + \
               (["exp_cutoff"] if e and e.get("tiny") and clause_of(e) == "state_is_not_the_solution" else [])
        if any(tg in ctx.known for tg in tags):
            ctx.violation(clause_of(e), {"arm": t["arm"], "seed": t["seed"]}, tags=tags)       # KNOWN-FINDING line (once), counts nothing
            continue
        reported += 1
        if reported <= 5:
            ctx.violation(clause_of(e), {"arm": t["arm"], "seed": t["seed"], "event_index": k, "event": e},
                          expected="IKPost(event)", observed={k2: e[k2] for k2 in e if k2 != "detail"} if e else None)
        else:
            ctx.violations += 1
    iks = [e for t in traces for e in t["ev"] if e["op"] == "IK"]
    cov = {}
    for e in iks:
        key = "%s|%s|%s|%s" % (e["gen"], e["s"], e["path"], "ok" if e["ok"] else "fail")
        cov[key] = cov.get(key, 0) + 1
    need = ["between-pos|exact|constrained", "between-pos|exact|free", "between-rot|exact|constrained", "beyond|", "reach|near|"]
    if not any(e.get("entry") == "constrainedIK" and e["ok"] for e in iks):
        ctx.machinery("IK campaign never got a success out of Arm.constrainedIK")
    for nd in need:
        if not any(k.startswith(nd) or (nd.endswith("|") and nd in k) for k in cov):
            ctx.machinery("IK campaign never exercised %s" % nd)
    ctx.sample({"arm": traces[0]["arm"], "events": [{k: v for k, v in e.items() if k != "detail"} for e in traces[0]["ev"][:4]]})
    return ctx.finish({
        "traces_validated_against_impl": len(traces), "accepted": len(acc), "evaluations": len(iks), "ik_calls": len(iks),
        "ik_reported_success": sum(e["ok"] for e in iks), "distinct_nontrivial": len(iks),
        "classes_exercised": cov, "constrainedIK_calls": sum(1 for e in iks if e.get("entry") == "constrainedIK"), "arms": [m[0] for m in mk],
        "rule": "random IK campaigns per arm (optionally after a base move and a tool change): goal classes reach / "
                "boundary / beyond / between-the-tolerances (position-only and orientation-only offsets of 1e-3), start "
                "classes near / far / random / exact, three tolerance settings, restarts on/off, three solver entry "
                "points; every call is distinct (fresh random data) and non-trivial",
    }, assumptions=["'within the position tolerance' is read in the weakest way: min(|dp|, |v_body|, |v_space|)",
                    "the local-convergence clause is applied only for 6+ joint arms with sigma_min(J) >= 0.05 and the "
                    "solution >= 0.15 rad inside the limits, as the property restricts it",
                    "for the free path the returned vector is evaluated unclamped"])


def ik_post(e):
    """IKPost of Arm.tla, mirrored only to pick the event to show / classify (TLC has already rejected the trace)"""
    if e["ok"]:
        if e["ang"] > 1000 or e["pos"] > 1000 or (e["path"] == "constrained" and not e["inlim"]) or not e["stateis"] or e["g"] == "beyond":
            return False
    elif not e["coh"]:
        return False
    if e["s"] == "near" and e["wellcond"] and e["g"] == "reach" and e["path"] != "IKFree" and not e["ok"]:
        return False
    return True


def clause_of(e):
    if e is None:
        return "trace_rejected"
    if e["op"] == "Raise":
        return "raises"
    if e["ok"] and e["g"] == "beyond":
        return "unreachable_goal_reported_reached"
    if e["ok"] and (e["ang"] > 1000 or e["pos"] > 1000):
        return "success_but_not_within_tolerances"
    if e["ok"] and e["path"] == "constrained" and not e["inlim"]:
        return "constrained_answer_outside_limits"
    if e["ok"] and not e["stateis"]:
        return "state_is_not_the_solution"
    if not e["ok"] and not e["coh"]:
        return "failure_leaves_incoherent_state"
    return "near_start_did_not_converge"


def replay(ctx, rep):
    print("re-run the check with the same seed; case:", rep["case"])
    return 0
