"""C02 - the Numba port computes what the reference Modern Robotics library computes.

Exact part  : spec/MRExact.tla - forward kinematics, both Jacobians, the Newton-Euler recursion (as
              a state machine), mass matrix, velocity-product, gravity and tip-force terms on an
              integer lattice of chains, evaluated by TLC; the exported integers are replayed into
              BOTH the port and the vendored reference (three-way agreement, TLC is the oracle).
Differential: for each of the 47 shared functions (computed by introspection), random well-typed
              float64 arguments in the classes of the quantifier are given to both libraries; shape,
              values (1e-9 relative, 1e-7 for integrated trajectories) and exceptions are compared.
              Events are decided by TLC against spec/LawTrace.tla; every function x class is a
              coverage obligation.  IK: success => tolerances met; both converged => same solution.
"""
import contextlib
import inspect
import io
import math
import random
import warnings

import numpy as np

from vf import tlc, refeval as rf
from vf.law import LawLog
from vf.par import pmap

LEVEL = "model_checking"
PI = math.pi
MR_CFG = ("SPECIFICATION Spec\nCONSTANTS\n  Chains <- MCChains\n  Cases <- %s\n" +
          "".join("INVARIANT %s\n" % i for i in ["Decomposition", "MassSymmetric", "MassPositive", "BodySpace",
                                                  "MassFromJacobians", "Dump"]))
ROT = {"Rx": [[1, 0, 0], [0, 0, -1], [0, 1, 0]], "Ry": [[0, 0, 1], [0, 1, 0], [-1, 0, 0]], "Rz": [[0, -1, 0], [1, 0, 0], [0, 0, 1]],
       "I": [[1, 0, 0], [0, 1, 0], [0, 0, 1]]}


def t4(R, p):
    T = np.eye(4)
    T[:3, :3] = np.array(R, dtype=float)
    T[:3, 3] = p
    return T


CHAINS = {
    1: dict(S=[[0, 0, 1, 0, 0, 0]], M=[t4(ROT["I"], [0, 0, 1]), t4(ROT["Rx"], [1, 0, 0])], G=[[1, 2, 3, 4, 4, 4]]),
    2: dict(S=[[0, 0, 1, 0, -1, 0], [0, 0, 0, 1, 0, 0]], M=[t4(ROT["I"], [1, 0, 1]), t4(ROT["Rz"], [1, 0, 0]), t4(ROT["I"], [0, 2, 0])],
            G=[[2, 1, 1, 3, 3, 3], [1, 1, 2, 1, 1, 1]]),
    3: dict(S=[[0, 0, 1, 0, 0, 0], [0, 1, 0, -2, 0, 0], [1, 0, 0, 0, 2, -1]],
            M=[t4(ROT["I"], [0, 0, 1]), t4(ROT["Ry"], [0, 1, 1]), t4(ROT["Rx"], [1, 0, 0]), t4(ROT["Rz"], [0, 0, 2])],
            G=[[1, 2, 3, 4, 4, 4], [2, 1, 2, 3, 3, 3], [1, 1, 1, 2, 2, 2]]),
    4: dict(S=[[0, 0, 1, 0, 0, 0], [0, 0, 0, 0, 0, 1], [0, 1, 0, -1, 0, 1], [1, 0, 0, 0, 1, 0]],
            M=[t4(ROT["I"], [0, 0, 1]), t4(ROT["I"], [1, 0, 0]), t4(ROT["Rx"], [0, 1, 0]), t4(ROT["Ry"], [1, 0, 1]), t4(ROT["I"], [0, 0, 1])],
            G=[[1, 1, 1, 2, 2, 2], [1, 2, 1, 1, 1, 1], [2, 2, 1, 3, 3, 3], [1, 1, 1, 1, 1, 1]]),
}


def libs():
    import basic_robotics.modern_robotics_numba.modern_high_performance as port
    import modern_robotics_ref.core as ref
    return port, ref


def shared_names():
    port, ref = libs()
    pn = {n for n, f in vars(port).items() if callable(f) and not n.startswith("_")}
    rn = {n for n, f in vars(ref).items() if inspect.isfunction(f)}
    return sorted(pn & rn)


def relerr(a, b):
    a, b = np.asarray(a, dtype=float), np.asarray(b, dtype=float)
    if a.shape != b.shape:
        return float("inf")
    if a.size == 0:
        return 0.0
    if not np.all(np.isfinite(a) == np.isfinite(b)):
        return float("inf")
    m = np.isfinite(b)
    if not m.any():
        return 0.0
    return float(np.abs(a[m] - b[m]).max() / max(1.0, np.abs(b[m]).max()))


def compare(x, y):
    """recursive comparison of results: returns (same_shape, relative error)"""
    if isinstance(y, (tuple, list)):
        if not isinstance(x, (tuple, list)) or len(x) != len(y):
            return False, float("inf")
        worst = 0.0
        for a, b in zip(x, y):
            ok, e = compare(a, b)
            if not ok:
                return False, float("inf")
            worst = max(worst, e)
        return True, worst
    if isinstance(y, (bool, np.bool_)):
        return True, 0.0 if bool(x) == bool(y) else float("inf")
    xa, ya = np.asarray(x, dtype=float), np.asarray(y, dtype=float)
    if xa.shape != ya.shape:
        if xa.size == ya.size and xa.squeeze().shape == ya.squeeze().shape:
            return False, relerr(xa.reshape(ya.shape), ya)       # values agree but the shape differs
        return False, float("inf")
    return True, relerr(xa, ya)


# ------------------------------------------------------------------ exact lattice replay
def exact_replay(L, rows):
    port, ref = libs()
    for r in rows:
        ch = CHAINS[r["c"]]
        K = r["case"]
        n = len(ch["S"])
        S = np.array(ch["S"], dtype=float).T
        M = np.array(ch["M"], dtype=float)
        G = np.array([np.diag(g) for g in ch["G"]], dtype=float)
        th = np.array([K["q"][i] * (PI / 2 if any(ch["S"][i][:3]) else 1.0) for i in range(n)], dtype=float)
        dq, ddq = np.array(K["dq"], dtype=float), np.array(K["ddq"], dtype=float)
        g, F = np.array(K["g"], dtype=float), np.array(K["F"], dtype=float)
        home = t4(r["home"]["R"], r["home"]["p"])
        B = np.array(r["blist"], dtype=float).T
        want = {"FKinSpace": t4(r["fk"]["R"], r["fk"]["p"]), "FKinBody": t4(r["fk"]["R"], r["fk"]["p"]),
                "JacobianSpace": np.array(r["js"], dtype=float).T, "JacobianBody": np.array(r["jb"], dtype=float).T,
                "InverseDynamics": np.array(r["tau"], dtype=float), "MassMatrix": np.array(r["mass"], dtype=float),
                "VelQuadraticForces": np.array(r["cvec"], dtype=float), "GravityForces": np.array(r["gvec"], dtype=float),
                "EndEffectorForces": np.array(r["ftip"], dtype=float), "ForwardDynamics": ddq}
        for libname, lib in (("port", port), ("reference", ref)):
            c = lambda a: np.ascontiguousarray(np.array(a, dtype=float))
            calls = {
                "FKinSpace": lambda: lib.FKinSpace(c(home), c(S), c(th)),
                "FKinBody": lambda: lib.FKinBody(c(home), c(B), c(th)),
                "JacobianSpace": lambda: lib.JacobianSpace(c(S), c(th)),
                "JacobianBody": lambda: lib.JacobianBody(c(B), c(th)),
                "InverseDynamics": lambda: lib.InverseDynamics(c(th), c(dq), c(ddq), c(g), c(F), c(M), c(G), c(S)),
                "MassMatrix": lambda: lib.MassMatrix(c(th), c(M), c(G), c(S)),
                "VelQuadraticForces": lambda: lib.VelQuadraticForces(c(th), c(dq), c(M), c(G), c(S)),
                "GravityForces": lambda: lib.GravityForces(c(th), c(g), c(M), c(G), c(S)),
                "EndEffectorForces": lambda: lib.EndEffectorForces(c(th), c(F), c(M), c(G), c(S)),
                "ForwardDynamics": lambda: lib.ForwardDynamics(c(th), c(dq), c(np.array(r["tau"], dtype=float)), c(g), c(F), c(M), c(G), c(S)),
            }
            for fn, call in calls.items():
                try:
                    got = np.asarray(call(), dtype=float)
                    res = relerr(got.reshape(want[fn].shape) if got.size == want[fn].size else got, want[fn])
                except Exception as e:
                    res = float("inf")
                L.log("%s(%s) = TLC exact value" % (fn, libname), "lattice|n=%d" % n, res, 1e-9, {"chain": r["c"], "case": K})
    for n in (1, 2, 3):
        for fn in ("FKinSpace", "JacobianBody", "InverseDynamics", "MassMatrix", "ForwardDynamics"):
            L.require("%s(port) = TLC exact value" % fn, "lattice|n=%d" % n, 4)
            L.require("%s(reference) = TLC exact value" % fn, "lattice|n=%d" % n, 4)


# ------------------------------------------------------------------ random well-typed arguments
def rand_se3(rng, pscale=1.0):
    ax = np.array([rng.gauss(0, 1) for _ in range(3)])
    ax /= np.linalg.norm(ax)
    return rf.taa_to_tm([rng.uniform(-pscale, pscale) for _ in range(3)] + list(ax * rng.uniform(0, PI - 1e-2)))


def chain(rng, n):
    S = np.zeros((6, n))
    for i in range(n):
        if rng.random() < 0.25:
            v = np.array([rng.gauss(0, 1) for _ in range(3)])
            S[3:, i] = v / np.linalg.norm(v)
        else:
            w = np.array([rng.gauss(0, 1) for _ in range(3)])
            w /= np.linalg.norm(w)
            q = np.array([rng.uniform(-1, 1) for _ in range(3)])
            S[:3, i], S[3:, i] = w, -np.cross(w, q)
    M = np.array([rand_se3(rng, 0.5) for _ in range(n + 1)])
    G = np.zeros((n, 6, 6))
    for i in range(n):
        A = np.array([[rng.gauss(0, 1) for _ in range(6)] for _ in range(6)])
        G[i] = A @ A.T + np.eye(6) * rng.uniform(0.1, 2.0)
    home = np.eye(4)
    for m in M:
        home = home @ m
    B = rf.adjoint(rf.trans_inv(home)) @ S
    v = lambda s=1.0: np.array([rng.uniform(-s, s) for _ in range(n)])
    return dict(n=n, S=S, M=M, G=G, home=home, B=B, th=v(PI), dth=v(2), ddth=v(3), tau=v(10), g=np.array([rng.uniform(-10, 10) for _ in range(3)]),
                F=np.array([rng.uniform(-5, 5) for _ in range(6)]))


HALF_AXES = [(1, 1, 0), (3, 4, 0), (1, 0, 1), (0, 1, 1), (1, 2, 2), (1, 0, 0), (0, 1, 0), (0, 0, 1), (2, -1, 0), (-1, 3, 0), (2, 3, 6)]


def half_turn(rng, pscale=2.0):
    """an exact half turn about a rational axis: R = 2 v v^T / |v|^2 - I (every pivot sub-branch of the logarithm)"""
    v = np.array(rng.choice(HALF_AXES), dtype=float)
    T = np.eye(4)
    T[:3, :3] = 2 * np.outer(v, v) / float(v @ v) - np.eye(3)
    T[:3, 3] = [rng.uniform(-pscale, pscale) for _ in range(3)]
    return T


def gen_args(fn, rng):
    """returns (class label, list of argument values) for the shared function fn"""
    n = rng.randint(1, 7)
    c = chain(rng, n)
    N = rng.randint(2, 12)
    method = rng.choice([3, 5])
    w = np.array([rng.gauss(0, 1) for _ in range(3)])
    T = rand_se3(rng, 3.0)
    V = np.array([rng.uniform(-2, 2) for _ in range(6)])
    cls = "n=%d" % n
    if fn in ("MatrixLog3", "MatrixLog6", "MatrixExp3", "MatrixExp6", "CartesianTrajectory", "ScrewTrajectory") and rng.random() < 0.2:
        # a rotation of 1e-9 .. 1e-5 rad, around the library's 1e-6 'near zero' cut-offs: port and reference must take the
        # same branch there
        ang = 10 ** rng.uniform(-9, -5)
        ax = w / np.linalg.norm(w)
        tw = np.concatenate([ax * ang, [rng.uniform(-2, 2) for _ in range(3)]])
        Tt = rf.se3_exp(tw)
        if fn == "MatrixLog3":
            return "tiny", [Tt[:3, :3]]
        if fn == "MatrixLog6":
            return "tiny", [Tt]
        if fn == "MatrixExp3":
            return "tiny", [rf.hat3(ax * ang)]
        if fn == "MatrixExp6":
            return "tiny", [rf.hat6(tw)]
        return "tiny|N=%d|method=%d" % (N, method), [T, T @ Tt, rng.uniform(0.5, 5), N, method]
    if fn in ("MatrixLog3", "MatrixLog6") and rng.random() < 0.35:
        H = half_turn(rng)
        return "half-turn", [H[:3, :3] if fn == "MatrixLog3" else H]
    if fn in ("CartesianTrajectory", "ScrewTrajectory") and rng.random() < 0.25:
        return "half-turn|N=%d|method=%d" % (N, method), [np.eye(4), half_turn(rng), rng.uniform(0.5, 5), N, method]
    if fn == "Adjoint" or fn == "TransInv" or fn == "TransToRp" or fn == "MatrixLog6" or fn == "TestIfSE3":
        return "SE3", [T]
    if fn in ("AxisAng3", "VecToso3"):
        return "vec3", [w * rng.uniform(0.1, 3)]
    if fn in ("AxisAng6", "VecTose3", "ad"):
        return "vec6", [V]
    if fn in ("CartesianTrajectory", "ScrewTrajectory"):
        return "N=%d|method=%d" % (N, method), [T, rand_se3(rng, 3.0), rng.uniform(0.5, 5), N, method]
    if fn == "ComputedTorque":
        return cls, [c["th"], c["dth"], np.array([rng.uniform(-0.2, 0.2) for _ in range(n)]), c["g"], c["M"], c["G"], c["S"],
                     c["th"] + 0.1, c["dth"] * 0.9, c["ddth"], rng.uniform(0.5, 5), rng.uniform(0.1, 2), rng.uniform(0.1, 3)]
    if fn in ("CubicTimeScaling", "QuinticTimeScaling"):
        Tf = rng.uniform(0.5, 5)
        return "scalar", [Tf, rng.uniform(0, Tf)]
    if fn in ("DistanceToSE3", "ProjectToSE3"):
        return "near-SE3", [T + np.vstack([np.array([[rng.uniform(-1e-2, 1e-2) for _ in range(4)] for _ in range(3)]), np.zeros((1, 4))])]
    if fn in ("DistanceToSO3", "ProjectToSO3"):
        return "near-SO3", [T[:3, :3] + np.array([[rng.uniform(-1e-2, 1e-2) for _ in range(3)] for _ in range(3)])]
    if fn == "TestIfSO3":
        return "SO3", [T[:3, :3]]
    if fn == "EndEffectorForces":
        return cls, [c["th"], c["F"], c["M"], c["G"], c["S"]]
    if fn == "EulerStep":
        return cls, [c["th"], c["dth"], c["ddth"], rng.uniform(0.001, 0.1)]
    if fn == "FKinBody":
        return cls, [c["home"], c["B"], c["th"]]
    if fn == "FKinSpace":
        return cls, [c["home"], c["S"], c["th"]]
    if fn == "ForwardDynamics":
        return cls, [c["th"], c["dth"], c["tau"], c["g"], c["F"], c["M"], c["G"], c["S"]]
    if fn == "ForwardDynamicsTrajectory":
        taumat = np.array([[rng.uniform(-5, 5) for _ in range(n)] for _ in range(N)])
        Fmat = np.array([[rng.uniform(-1, 1) for _ in range(6)] for _ in range(N)])
        return "%s|N=%d" % (cls, N), [c["th"], c["dth"], taumat, c["g"], Fmat, c["M"], c["G"], c["S"], 0.01, rng.choice([1, 3])]
    if fn == "GravityForces":
        return cls, [c["th"], c["g"], c["M"], c["G"], c["S"]]
    if fn in ("IKinBody", "IKinSpace"):
        goal = rf.poe_space(c["home"], c["S"], c["th"])
        start = c["th"] + np.array([rng.uniform(-0.1, 0.1) for _ in range(n)])
        lst = c["B"] if fn == "IKinBody" else c["S"]
        # tolerances: the usual tight pair, or a coarse pair (the docstring's 0.01 rad / 0.001 m and its mirror) with a start a
        # few tolerances away - the regime where WHICH error is compared with WHICH tolerance decides when the solver stops
        if rng.random() < 0.5:
            eomg, ev = rng.choice([(1e-2, 1e-3), (1e-3, 1e-2), (5e-3, 5e-4)])
            start = c["th"] + np.array([rng.uniform(-0.05, 0.05) for _ in range(n)])
            return cls + "|coarse", [lst, c["home"], goal, start, eomg, ev]
        return cls, [lst, c["home"], goal, start, 1e-4, 1e-5]
    if fn == "InverseDynamics":
        return cls, [c["th"], c["dth"], c["ddth"], c["g"], c["F"], c["M"], c["G"], c["S"]]
    if fn == "InverseDynamicsTrajectory":
        mk = lambda s: np.array([[rng.uniform(-s, s) for _ in range(n)] for _ in range(N)])
        Fmat = np.array([[rng.uniform(-1, 1) for _ in range(6)] for _ in range(N)])
        return "%s|N=%d" % (cls, N), [mk(PI), mk(2), mk(3), c["g"], Fmat, c["M"], c["G"], c["S"]]
    if fn == "JacobianBody":
        return cls, [c["B"], c["th"]]
    if fn == "JacobianSpace":
        return cls, [c["S"], c["th"]]
    if fn == "JointTrajectory":
        return "%s|N=%d|method=%d" % (cls, N, method), [c["th"], c["th"] + c["dth"], rng.uniform(0.5, 5), N, method]
    if fn == "MassMatrix":
        return cls, [c["th"], c["M"], c["G"], c["S"]]
    if fn == "MatrixExp3":
        return "so3", [rf.hat3(w * rng.uniform(0.01, 3))]
    if fn == "MatrixExp6":
        return "se3", [rf.hat6(V)]
    if fn == "MatrixLog3":
        return "SO3", [T[:3, :3]]
    if fn == "RotInv":
        return "SO3", [T[:3, :3]]
    if fn == "NearZero":
        return "scalar", [rng.choice([0.0, 1e-7, -1e-7, 1e-5, rng.uniform(-1, 1)])]
    if fn == "Normalize":
        return "vec", [np.array([rng.uniform(-3, 3) for _ in range(rng.choice([3, 6]))])]
    if fn == "RpToTrans":
        return "R,p", [T[:3, :3], T[:3, 3]]
    if fn == "ScrewToAxis":
        q = np.array([rng.uniform(-2, 2) for _ in range(3)])
        return "q,s,h", [q, w / np.linalg.norm(w), rng.uniform(-1, 1)]
    if fn == "SimulateControl":
        Nn = rng.randint(2, 5)
        traj = np.array([c["th"] + c["dth"] * 0.01 * k for k in range(Nn)])
        dtraj = np.array([c["dth"] for _ in range(Nn)])
        ddtraj = np.zeros((Nn, n))
        Fmat = np.array([[rng.uniform(-1, 1) for _ in range(6)] for _ in range(Nn)])
        # the controller's model (gtilde, Mtildelist, Gtildelist) differs from the simulated robot in every part, so that
        # an argument used in the wrong role shows
        Mt = np.array(c["M"], dtype=float).copy()
        for i in range(Mt.shape[0]):
            Mt[i] = Mt[i] @ rf.taa_to_tm([rng.uniform(-0.05, 0.05) for _ in range(3)] + [rng.uniform(-0.1, 0.1) for _ in range(3)])
        Gt = np.array(c["G"], dtype=float) * np.array([rng.uniform(0.8, 1.25) for _ in range(len(c["G"]))]).reshape((-1, 1, 1))
        return "%s|N=%d" % (cls, Nn), [c["th"], c["dth"], c["g"], Fmat, c["M"], c["G"], c["S"], traj, dtraj, ddtraj,
                                       c["g"] * 0.9, Mt, Gt, 5.0, 1.0, 2.0, 0.01, rng.choice([1, 2])]
    if fn == "VelQuadraticForces":
        return cls, [c["th"], c["dth"], c["M"], c["G"], c["S"]]
    if fn == "se3ToVec":
        return "se3", [rf.hat6(V)]
    if fn == "so3ToVec":
        return "so3", [rf.hat3(w)]
    raise KeyError(fn)


def cp(args):
    out = []
    for a in args:
        out.append(np.ascontiguousarray(np.array(a, dtype=float)) if isinstance(a, np.ndarray) else a)
    return out


def ik_path_wanders(ref, fn, args):
    """The Newton-Raphson iteration of the Modern Robotics IK, re-run with the reference library's own primitives, to see
    whether it stays in the neighbourhood of its start: an iterate more than a radian away, or a Jacobian that is nearly
    singular on the way (sigma_min < 1e-2 sigma_max), amplifies float noise until port and reference part ways - such a
    solve says nothing about their agreement (thorough tier: 1 of 48 000 solves differed by 3e-5 that way)."""
    lst, M, T, th0, eomg, ev = [np.array(a, dtype=float) if isinstance(a, np.ndarray) else a for a in args[:6]]
    th = np.array(th0, dtype=float).copy()
    for _ in range(20):
        if fn == "IKinBody":
            V = ref.se3ToVec(ref.MatrixLog6(ref.TransInv(ref.FKinBody(M, lst, th)) @ T))
            J = ref.JacobianBody(lst, th)
        else:
            Tsb = ref.FKinSpace(M, lst, th)
            V = ref.Adjoint(Tsb) @ ref.se3ToVec(ref.MatrixLog6(ref.TransInv(Tsb) @ T))
            J = ref.JacobianSpace(lst, th)
        if np.linalg.norm(V[:3]) <= eomg and np.linalg.norm(V[3:]) <= ev:
            return False
        sv = np.linalg.svd(J, compute_uv=False)
        if sv[min(J.shape) - 1] < 1e-2 * sv[0]:
            return True
        th = th + np.linalg.pinv(J) @ V
        if float(np.abs(th - th0).max()) > 1.0 or not np.all(np.isfinite(th)):
            return True
    return False


def diff_job(job):
    fn, seed, count = job
    port, ref = libs()
    rng = random.Random(seed)
    ev = []
    pf, rfn = getattr(port, fn), getattr(ref, fn)
    integrated = fn in ("ForwardDynamicsTrajectory", "SimulateControl")
    tol = 1e-7 if integrated else 1e-9
    for _ in range(count):
        cls, args = gen_args(fn, rng)
        case = {"fn": fn, "class": cls, "seed": seed}
        with contextlib.redirect_stdout(io.StringIO()), warnings.catch_warnings():
            warnings.simplefilter("ignore")
            try:
                want = rfn(*cp(args))
            except Exception as e:
                ev.append((fn + ": reference accepts the arguments", cls, float("inf"), 1.0, dict(case, ref_raised=repr(e)[:200])))
                continue
            try:
                got = pf(*cp(args))
            except Exception as e:
                ev.append((fn + ": does not raise where the reference returns", cls, float("inf"), 1.0, dict(case, port_raised=repr(e)[:300])))
                continue
        ev.append((fn + ": does not raise where the reference returns", cls, 0.0, 1.0, case))
        same, err = compare(got, want)
        ev.append((fn + ": same shape as the reference", cls, 0.0 if same else float("inf"), 1.0, case))
        if fn in ("IKinBody", "IKinSpace"):
            th_p, ok_p = got
            th_r, ok_r = want
            # Newton-Raphson that leaves the neighbourhood of its start (joint values running off by more than a radian) is
            # chaotic: float noise decides where port and reference end up, and neither the flags nor the solutions are
            # comparable then (seed 1 of the quick tier: a 6-joint chain wandering to |theta| ~ 60); the tolerance clauses stay
            wandered = max(float(np.abs(np.asarray(th_p) - args[3]).max()), float(np.abs(np.asarray(th_r) - args[3]).max())) > 1.0 \
                or ik_path_wanders(ref, fn, args)
            if not wandered:
                ev.append((fn + ": same success flag as the reference", cls, 0.0 if bool(ok_p) == bool(ok_r) else float("inf"), 1.0, case))
            if ok_p:
                n = len(args[3])
                lst, home, goal = args[0], args[1], args[2]
                T = rf.poe_space(home, lst, th_p) if fn == "IKinSpace" else home @ rf.poe_space(np.eye(4), lst, th_p)
                D = rf.se3_log(rf.trans_inv(T) @ goal)
                Vv = D if fn == "IKinBody" else rf.adjoint(T) @ D
                ev.append((fn + ": success meets eomg", cls, float(np.linalg.norm(Vv[:3])), args[4] * (1 + 1e-6), case))
                ev.append((fn + ": success meets ev", cls, float(np.linalg.norm(Vv[3:])), args[5] * (1 + 1e-6) + 1e-9, case))
            if ok_p and ok_r and not wandered:
                ev.append((fn + ": both converge to the same solution", cls, relerr(th_p, th_r), 1e-9, case))
        else:
            ev.append((fn + ": same values as the reference", cls, err, tol, case))
    return ev


def run(ctx):
    port, ref = libs()
    names = shared_names()
    if len(names) != 47:
        ctx.machinery("expected 47 shared functions, found %d" % len(names))
    with ctx.timed("tlc-mrexact"):
        r = tlc.run("MRExactMC", cfg_text=MR_CFG % ctx.pick("SmallCases", "BigCases"), timeout=6000, heap="8g")
    ctx.add_tlc("exact Modern Robotics on the lattice (Newton-Euler state machine)", r)
    if not r.ok:
        ctx.model_violation("MRExact", r)
    L = LawLog()
    per = ctx.pick(24, 2000)
    jobs = []
    for fn in names:
        slow = fn in ("SimulateControl", "ForwardDynamicsTrajectory", "InverseDynamicsTrajectory", "ComputedTorque")
        cnt = max(6, per // 3) if slow else per
        if fn in ("IKinBody", "IKinSpace"):
            cnt = per * 12          # iterative: which iterate a solve stops at depends on the start, so many starts (each is cheap)
        for k in range(0, cnt, max(1, cnt // 4)):
            jobs.append((fn, ctx.seed * 7919 + hash(fn) % 100000 + k, max(1, cnt // 4)))
    with ctx.timed("differential"):
        res = pmap(diff_job, jobs, timeout=1500)
    for out in res:
        for law, reg, resid, tol, case in out:
            L.log(law, reg, resid, tol, case)
    with ctx.timed("exact-replay"):
        exact_replay(L, r.json)
    seen = {}
    for e in L.events:
        seen.setdefault(e[0], set()).add(e[1])
    for fn in names:
        law = fn + ": does not raise where the reference returns"
        if law not in seen:
            ctx.machinery("function %s was never exercised" % fn)
        L.require(law, sorted(seen[law])[0], 1)
    with ctx.timed("lawtrace"):
        counts = L.decide(ctx, tag="c02")
    lens = sorted(set(k[1] for k in counts if k[1].startswith("n=")))
    ctx.sample({"exact_case": {k: r.json[5][k] for k in ("c", "case", "tau", "mass")}})
    ctx.sample({"differential_event": {"law": L.events[3][0], "class": L.events[3][1]}})
    return ctx.finish({
        "traces_validated_against_impl": len(r.json), "evaluations": len(L.events), "shared_functions": len(names),
        "function_class_blocks": len(counts), "chain_lengths_seen": lens, "exact_lattice_cases": len(r.json),
        "distinct_nontrivial": len(set((e[0], e[1], e[4].get("seed"), i) for i, e in enumerate(L.events))),
        "rule": "exact: every lattice case (chains of 1..4 revolute/prismatic joints, quarter-turn joint values, integer "
                "rates / gravity / tip wrench) through 10 functions of both libraries; differential: fresh random "
                "arguments per call for each of the 47 shared functions (chains of 1..7 joints, N = 2..12, both time "
                "scalings); every event is a distinct call",
    }, assumptions=["the vendored modern_robotics 1.1.1 core.py (sha256 checked by setup) is the oracle off the lattice, as the "
                    "property defines", "1e-9 relative (1e-7 for integrated trajectories)"])


def replay(ctx, rep):
    print("re-run the check with the same seed; case:", rep["case"])
    return 0
