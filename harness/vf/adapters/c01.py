"""C01 - rigid-motion primitives: exp/log are inverse, inverse/adjoint are homomorphic.

Exact part  : spec/GroupLaws.tla over spec/QSE3.tla - TLC checks the group laws in exact integer
              arithmetic on a quaternion palette and exports each transform with its exact inverse,
              rotation, adjoint, Ad(T)V and logarithm branch; the code's primitives must return
              those values (one implementation test per log branch / pivot).
Float part  : the laws evaluated on the real code over the regions the quantifier names
              (|w| -> 0 around the 1e-6 cut-off, |w| -> pi, axis-aligned and generic axes, |v|,|p|
              up to 1e3); residuals are decided by TLC against spec/LawTrace.tla, with coverage
              obligations per law x region.
"""
import math
import random

import numpy as np

from vf import tlc, refeval as rf
from vf.law import LawLog

LEVEL = "model_checking"
PI = math.pi
KNOWN = ["log_near_pi"]


def frac_mat(rm):
    return np.array(rm["m"], dtype=float) / float(rm["den"])


def frac_vec(rv):
    return np.array(rv["v"], dtype=float) / float(rv["den"])


def gl_cfg(q, t, lvl, dumps):
    s = ("SPECIFICATION Spec\nCONSTANTS\n  Quats <- %s\n  Trans <- %s\n  Twists <- Tw\n  MaxLevel = %d\n  Quats3 <- QTiny\n"
         "INVARIANT Laws1\nINVARIANT Laws2\nINVARIANT Laws3\n" % (q, t, lvl))
    for d in dumps:
        s += "INVARIANT %s\n" % d
    return s


def fmr():
    import basic_robotics.modern_robotics_numba.modern_high_performance as m
    return m


def c(a):
    return np.ascontiguousarray(np.asarray(a, dtype=float))


def rel(a, b):
    """max abs difference relative to max(1, scale of expected)"""
    a, b = np.asarray(a, dtype=float), np.asarray(b, dtype=float)
    if a.shape != b.shape:
        return float("inf")
    if not np.all(np.isfinite(a)):
        return float("inf")
    return float(np.abs(a - b).max() / max(1.0, np.abs(b).max()))


# ------------------------------------------------------------------ exact table -> code
def exact_cases(L, table):
    m = fmr()
    for row in table:
        A = row["A"]
        q = A["q"]
        branch = row["branch"]
        reg = "exact:" + branch
        T = frac_mat(row["mat"])
        R = frac_mat(row["rot"])
        p = np.array(A["p"], dtype=float) / A["d"]
        case = {"q": q, "p": A["p"], "d": A["d"]}
        Tinv = frac_mat({"m": None, "den": 1}) if False else None
        inv = row["inv"]
        qi = inv["q"]
        Ri = rf.quat_xyzw_to_rot([qi[1], qi[2], qi[3], qi[0]])
        Tinv = np.eye(4)
        Tinv[:3, :3] = Ri
        Tinv[:3, 3] = np.array(inv["p"], dtype=float) / inv["d"]
        L.log("TransInv=exact", reg, rel(m.TransInv(c(T)), Tinv), 1e-9, case)
        L.log("Adjoint=exact", reg, rel(m.Adjoint(c(T)), frac_mat(row["adj"])), 1e-9, case)
        Rc, pc = m.TransToRp(c(T))
        L.log("TransToRp=exact", reg, max(rel(Rc, R), rel(np.asarray(pc).reshape(3), p)), 1e-9, case)
        L.log("RpToTrans=exact", reg, rel(m.RpToTrans(c(R), c(p)), T), 1e-9, case)
        for vs, av in row["adv"].items():
            V = np.array([float(x) for x in vs.strip("<>").split(",")])
            L.log("AdV=exact", reg, rel(m.Adjoint(c(T)) @ V, frac_vec(av)), 1e-9, case)
            L.log("HatVee6", reg, rel(m.se3ToVec(m.VecTose3(c(V))), V), 1e-12, case)
            L.log("ad=[[w],0;[v],[w]]", reg, rel(m.ad(c(V)), ad_ref(V)), 1e-12, case)
        # logarithm: angle 2 atan2(|v|,|w|), axis +-v/|v| (sign free only on the half-turn branches)
        w, v = q[0], np.array(q[1:], dtype=float)
        ang = 2 * math.atan2(float(np.linalg.norm(v)), abs(w))
        lg = np.asarray(m.so3ToVec(m.MatrixLog3(c(R))), dtype=float).reshape(3)
        if branch == "zero":
            L.log("Log3=exact", reg, float(np.abs(lg).max()), 5e-6, case)
        else:
            axis = v / np.linalg.norm(v) * (1 if w >= 0 else -1)
            want = axis * ang
            r1 = float(np.abs(lg - want).max())
            r2 = float(np.abs(lg + want).max()) if branch.startswith("half") else float("inf")
            L.log("Log3=exact", reg, min(r1, r2), 5e-6, case)
        L.log("ExpLog3", reg, rel(m.MatrixExp3(m.MatrixLog3(c(R))), R), 5e-6, case)
        L.log("ExpLog6", reg, rel(m.MatrixExp6(m.MatrixLog6(c(T))), T), 5e-6, case)


def ad_ref(V):
    w, v = V[:3], V[3:]
    a = np.zeros((6, 6))
    a[:3, :3] = rf.hat3(w)
    a[3:, 3:] = rf.hat3(w)
    a[3:, :3] = rf.hat3(v)
    return a


def pair_cases(L, pairs):
    m = fmr()
    for row in pairs:
        TA, TB = tf_mat(row["A"]), tf_mat(row["B"])
        AB = frac_mat(row["AB"])
        case = {"A": row["A"], "B": row["B"]}
        L.log("AdHom=exact", "exact:pairs", rel(m.Adjoint(c(TA @ TB)), rf.adjoint(AB)), 1e-9, case)
        L.log("AdHom", "exact:pairs", rel(m.Adjoint(c(AB)), m.Adjoint(c(TA)) @ m.Adjoint(c(TB))), 1e-9, case)
        L.log("InvAnti", "exact:pairs", rel(m.TransInv(c(AB)), m.TransInv(c(TB)) @ m.TransInv(c(TA))), 1e-9, case)


def tf_mat(A):
    q = A["q"]
    T = np.eye(4)
    T[:3, :3] = rf.quat_xyzw_to_rot([q[1], q[2], q[3], q[0]])
    T[:3, 3] = np.array(A["p"], dtype=float) / A["d"]
    return T


# ------------------------------------------------------------------ float regions
REGIONS = ["zero", "tiny", "cut-", "cut+", "small", "generic", "pi-1e-2", "pi-1e-3", "pi-1e-4", "pi-band", "pi", "over"]
LOG_OK = {"zero", "tiny", "cut-", "cut+", "small", "generic", "pi-1e-2", "pi-1e-3", "pi-1e-4", "pi-band"}


def angle_in(rng, region):
    if region == "zero":
        return 0.0
    if region == "tiny":
        return 10 ** rng.uniform(-9, -7)
    if region == "cut-":
        return 1e-6 * (1 - rng.uniform(1e-9, 1e-3))
    if region == "cut+":
        return 1e-6 * (1 + rng.uniform(1e-9, 1e-3))
    if region == "small":
        return 10 ** rng.uniform(-5, -2)
    if region == "generic":
        return rng.uniform(0.05, 3.0)
    if region == "pi-1e-2":
        return PI - rng.uniform(2e-3, 2e-2)
    if region == "pi-1e-3":
        return PI - rng.uniform(2e-4, 2e-3)
    if region == "pi-1e-4":
        return PI - rng.uniform(4e-5, 2e-4)
    if region == "pi-band":
        return PI - 10 ** rng.uniform(-9, math.log10(2.5e-5))
    if region == "pi":
        return PI
    if region == "over":
        return rng.uniform(PI + 1e-3, 2 * PI)
    raise ValueError(region)


def axis_of(rng, kind):
    if kind == "aligned":
        a = np.zeros(3)
        a[rng.randrange(3)] = rng.choice([-1.0, 1.0])
        return a
    a = np.array([rng.gauss(0, 1) for _ in range(3)])
    return a / np.linalg.norm(a)


def float_cases(L, rng, n_per):
    m = fmr()
    for region in REGIONS:
        for axk in ("aligned", "generic"):
            for scale in (0.0, 1.0, 1e3):
                reg = "%s|%s|%g" % (region, axk, scale)
                for _ in range(n_per):
                    th = angle_in(rng, region)
                    ax = axis_of(rng, axk)
                    w = ax * th
                    v = np.array([rng.uniform(-1, 1) for _ in range(3)]) * scale
                    case = {"w": w.tolist(), "v": v.tolist(), "theta": th}
                    Rr = rf.rot_exp(w)     # an exact-as-possible rotation of that angle, independent of the library
                    known = "log_near_pi" if rf.in_log_band(Rr) else ""
                    sc = max(1.0, scale)
                    # --- SO(3)
                    R = m.MatrixExp3(m.VecToso3(c(w)))
                    L.log("RigidExp3", reg, max(float(np.abs(R.T @ R - np.eye(3)).max()), abs(np.linalg.det(R) - 1)),
                          1e-9, case)
                    L.log("Exp3=Rodrigues", reg, float(np.abs(R - rf.rot_exp(w)).max()), 5e-6, case)
                    L.log("HatVee3", reg, float(np.abs(m.so3ToVec(m.VecToso3(c(w))) - w).max()), 1e-12, case)
                    L.log("ExpLog3", reg, float(np.abs(m.MatrixExp3(m.MatrixLog3(c(Rr))) - Rr).max()), 5e-6, case, known)
                    if region in LOG_OK:
                        back = np.asarray(m.so3ToVec(m.MatrixLog3(c(R)))).reshape(3)
                        L.log("LogExp3", reg, float(np.abs(back - w).max()), 5e-6, case,
                              "log_near_pi" if rf.in_log_band(R) else "")
                    # --- SE(3): twist (w, v)
                    V = np.concatenate([w, v])
                    T = m.MatrixExp6(m.VecTose3(c(V)))
                    L.log("RigidExp6", reg, max(float(np.abs(T[:3, :3].T @ T[:3, :3] - np.eye(3)).max()),
                                                abs(np.linalg.det(T[:3, :3]) - 1),
                                                float(np.abs(T[3] - np.array([0, 0, 0, 1.0])).max())), 1e-9, case)
                    L.log("Exp6=series", reg, float(np.abs(T - rf.se3_exp(V)).max()) / sc, 5e-6, case)
                    Tr = rf.se3_exp(V) if scale else rf.taa_to_tm(np.concatenate([np.zeros(3), w]))
                    if scale == 1e3:   # T in SE(3) with |p| <= 1e3 directly
                        Tr = np.eye(4)
                        Tr[:3, :3] = Rr
                        Tr[:3, 3] = v
                    L.log("ExpLog6", reg, float(np.abs(m.MatrixExp6(m.MatrixLog6(c(Tr))) - Tr).max()) / sc, 5e-6, case,
                          known)
                    if region in LOG_OK:
                        back6 = np.asarray(m.se3ToVec(m.MatrixLog6(c(T)))).reshape(6)
                        L.log("LogExp6", reg, float(np.abs(back6 - V).max()) / sc, 5e-6, case,
                              "log_near_pi" if rf.in_log_band(T[:3, :3]) else "")
                    L.log("HatVee6", reg, float(np.abs(m.se3ToVec(m.VecTose3(c(V))) - V).max()), 1e-12 * sc, case)
                    # --- group structure on float transforms
                    T2 = rf.taa_to_tm([rng.uniform(-1, 1) * sc, rng.uniform(-1, 1) * sc, rng.uniform(-1, 1) * sc,
                                       *(axis_of(rng, "generic") * rng.uniform(0, PI))])
                    T1 = Tr
                    I = m.TransInv(c(T1)) @ T1
                    L.log("InvLaw", reg, float(np.abs(I - np.eye(4)).max()) / sc, 1e-9, case)
                    L.log("TransInv=closed form", reg, rel(m.TransInv(c(T1)), rf.trans_inv(T1)), 1e-9, case)
                    A1, A2 = m.Adjoint(c(T1)), m.Adjoint(c(T2))
                    L.log("AdHom", reg, rel(m.Adjoint(c(T1 @ T2)), A1 @ A2), 1e-9, case)
                    L.log("AdInv", reg, rel(m.Adjoint(m.TransInv(c(T1))) @ A1, np.eye(6)) / sc, 1e-9, case)
                    Vt = np.array([rng.uniform(-1, 1) for _ in range(6)])
                    lhs = T1 @ m.VecTose3(c(Vt)) @ m.TransInv(c(T1))
                    L.log("Conj", reg, rel(lhs, m.VecTose3(c(A1 @ Vt))), 1e-9, case)
                    L.log("Adjoint=closed form", reg, rel(A1, rf.adjoint(T1)), 1e-9, case)
                L.require("LogExp3" if region in LOG_OK else "RigidExp3", reg, n_per)
                for law in ("RigidExp3", "ExpLog3", "RigidExp6", "ExpLog6", "InvLaw", "AdHom", "AdInv", "Conj", "HatVee6"):
                    L.require(law, reg, n_per)


def run(ctx):
    rng = random.Random(ctx.seed + 1)
    fmr()
    q = ctx.pick("Q1", "Q2")
    with ctx.timed("tlc-laws"):
        r = tlc.run("GroupLawsMC", cfg_text=gl_cfg(q, "T3", 2, ["Dump1"]), timeout=6000, heap="8g")
    ctx.add_tlc("group laws on the exact palette (pairs)", r)
    if not r.ok:
        ctx.model_violation("GroupLaws", r)
    table = [j for j in r.json if j.get("t") == "T"]
    with ctx.timed("tlc-pairs"):
        r2 = tlc.run("GroupLawsMC", cfg_text=gl_cfg("QSmall", "T2", 3, ["Dump2"]), timeout=3000)
    ctx.add_tlc("pairs/triples on the small palette", r2)
    if not r2.ok:
        ctx.model_violation("GroupLaws small", r2)
    pairs = [j for j in r2.json if j.get("t") == "P"]
    branches = sorted(set(t["branch"] for t in table))
    if branches != ["generic", "halfX", "halfY", "halfZ", "zero"]:
        ctx.machinery("palette does not inhabit every logarithm branch: %s" % branches)
    L = LawLog()
    with ctx.timed("exact-replay"):
        exact_cases(L, table)
        pair_cases(L, pairs)
    for b in branches:
        for law in ("TransInv=exact", "Adjoint=exact", "Log3=exact", "ExpLog3", "ExpLog6"):
            L.require(law, "exact:" + b, 1)
    L.require("AdHom=exact", "exact:pairs", len(pairs))
    n_exact = len(L.events)
    with ctx.timed("float-laws"):
        float_cases(L, rng, ctx.pick(50, 1500))
    with ctx.timed("lawtrace"):
        counts = L.decide(ctx, known_tags=KNOWN, tag="c01")
    ctx.sample({"exact_case": {k: table[0][k] for k in ("A", "inv", "branch")}})
    ctx.sample({"float_event": {"law": L.events[-1][0], "region": L.events[-1][1], "resid_units": L.events[-1][2],
                                "case": L.events[-1][4]}})
    distinct = len(set((e[0], e[1], repr(e[4])) for e in L.events))
    return ctx.finish({
        "traces_validated_against_impl": len(table) + len(pairs), "evaluations": len(L.events),
        "exact_transforms": len(table), "exact_pairs": len(pairs), "exact_law_events": n_exact,
        "float_law_events": len(L.events) - n_exact, "law_region_blocks": len(counts),
        "distinct_nontrivial": distinct, "log_branches_inhabited": branches,
        "rule": "exact: every transform of the palette (canonical primitive quaternions x translations) and every "
                "pair of the small palette; float: n cases per (angle region x axis kind x translation scale); "
                "distinct = distinct (law, region, arguments); all non-trivial except the identity element",
    }, assumptions=["round-trip laws (exp/log) are judged at 5e-6 relative to max(1, |v|, |p|): the cut-off's own error "
                    "scales with the translation; purely algebraic laws at 1e-9 relative",
                    "RefEval supplies Rodrigues/series values independent of the library",
                    "region pi-band (0 < pi - angle < 2.5e-5) is sampled and classified under known finding log_near_pi"])


def replay(ctx, rep):
    print("law cases are re-evaluated by re-running the check with the same seed; case:", rep["case"])
    return 0
