"""Law traces: residuals computed by the harness on the real code, decided by TLC (LawTrace.tla)."""
import re

from vf import tlc

CAP = 2 ** 30
CHUNK = 120000


class LawLog:
    def __init__(self):
        self.events = []     # (law, region, resid_units, known, case)
        self.required = {}

    def require(self, law, region, minimum=1):
        self.required[(law, region)] = max(minimum, self.required.get((law, region), 0))

    def log(self, law, region, resid, tol, case, known=""):
        """resid, tol: floats (same unit).  Stored in units of tol/1000, capped; NaN/inf = cap."""
        try:
            u = float(resid) / float(tol) * 1000.0
            units = CAP if not (u == u) or u > CAP else int(u) + (0 if u == int(u) else 1)
        except (OverflowError, ValueError, ZeroDivisionError):
            units = CAP
        self.events.append((law, region, units, known or "", case))

    def decide(self, ctx, known_tags=(), tag="law", max_report=4):
        """Returns dict(counts per (law, region)).  Reports violations / known findings on ctx."""
        evs = sorted(range(len(self.events)), key=lambda i: (self.events[i][0], self.events[i][1]))
        out, blocks = [], []
        for pos, i in enumerate(evs, start=1):
            law, region, units, known, _ = self.events[i]
            out.append({"law": law, "region": region, "resid": units, "known": known})
            if blocks and blocks[-1]["law"] == law and blocks[-1]["region"] == region:
                blocks[-1]["hi"] = pos
            else:
                blocks.append({"law": law, "region": region, "lo": pos, "hi": pos})
        req = [{"law": l, "region": r, "min": m} for (l, r), m in sorted(self.required.items())]
        active = [t for t in known_tags if t in ctx.known]
        # TLC reads the trace in chunks of at most CHUNK events (a block that straddles a chunk border is handed over as
        # two blocks of the same law and region); the coverage obligations are decided on the block table of the
        # whole trace in a run of their own
        jsons = []
        nblocks = 0
        for lo in range(0, max(1, len(out)), CHUNK):
            part = out[lo:lo + CHUNK]
            pblocks = []
            for pos, e in enumerate(part, start=1):
                if pblocks and pblocks[-1]["law"] == e["law"] and pblocks[-1]["region"] == e["region"]:
                    pblocks[-1]["hi"] = pos
                else:
                    pblocks.append({"law": e["law"], "region": e["region"], "lo": pos, "hi": pos})
            nblocks += len(pblocks)
            path = tlc.write_json({"events": part, "blocks": pblocks, "required": [], "known": active}, "law-%s-%d" % (tag, lo // CHUNK))
            cfg = "SPECIFICATION Spec\nINVARIANT WellFormed\nINVARIANT Homogeneous\nINVARIANT Report\n"
            r = tlc.run("LawTrace", cfg_text=cfg, env={"LAW_FILE": path}, timeout=3000, heap="8g")
            ctx.add_tlc("lawtrace-%s-%d" % (tag, lo // CHUNK), r)
            if r.violated or r.errors:
                ctx.machinery("LawTrace failed:\n" + r.counterexample())
            for j in r.json:
                if j.get("k") in ("BAD", "KNOWN"):
                    j = dict(j, s=[i + lo for i in j["s"]])
                jsons.append(j)
        path = tlc.write_json({"events": [], "blocks": blocks, "required": req, "known": active}, "law-%s-cov" % tag)
        r = tlc.run("LawTrace", cfg_text="SPECIFICATION Spec\nINVARIANT Coverage\n", env={"LAW_FILE": path}, timeout=3000, heap="8g")
        ctx.add_tlc("lawtrace-%s-coverage" % tag, r)
        cov_fail = None
        if "Coverage" in r.violated:
            have = {(b["law"], b["region"]): b["hi"] - b["lo"] + 1 for b in blocks}
            miss = [(k, m, have.get(k, 0)) for k, m in self.required.items() if have.get(k, 0) < m]
            cov_fail = "law/region obligations not exercised (law, region), min, seen: %s" % miss[:10]
        elif r.violated or r.errors:
            ctx.machinery("LawTrace (coverage) failed:\n" + r.counterexample())
        bad = set(i for j in jsons if j.get("k") == "BAD" for i in j["s"])
        known = set(i for j in jsons if j.get("k") == "KNOWN" for i in j["s"])
        blocks_seen = sum(1 for j in jsons if j.get("k") == "BLOCK")
        if blocks_seen != nblocks:
            ctx.machinery("LawTrace reported %d of %d blocks" % (blocks_seen, nblocks))
        for pos in known:
            law, region, units, k, case = self.events[evs[pos - 1]]
            ctx.violation(law, {"law": law, "region": region, "case": case}, tags=[k])
        summary = {}
        for pos in bad:
            law, region, units, k, case = self.events[evs[pos - 1]]
            if not (k and k in ctx.known):
                summary[(law, region)] = summary.get((law, region), 0) + 1
        for (law, region), cnt in sorted(summary.items()):
            print("  law violated: %-45s region %-32s %d case(s)" % (law, region, cnt))
        for n, pos in enumerate(sorted(bad)):
            law, region, units, k, case = self.events[evs[pos - 1]]
            if n < max_report:
                ctx.violation("%s@%s" % (law, region), {"law": law, "region": region, "case": case},
                              expected="residual <= 1000 (units of tol/1000)", observed=units, tags=[k] if k else [])
            else:
                ctx.violations += 1
        # an obligation that was not exercised is a machinery failure - unless violations were found: code that breaks a law
        # often also stops the cases behind it from being reached, and the violation is the verdict then
        if cov_fail:
            if ctx.violations == 0:
                ctx.machinery(cov_fail)
            print("  (also: " + cov_fail[:300] + ")")
        counts = {}
        for j in jsons:
            if j.get("k") == "BLOCK":
                counts[(j["law"], j["region"])] = counts.get((j["law"], j["region"]), 0) + int(j["n"])
        return counts
