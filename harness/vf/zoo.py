"""Arm zoo: the kinematic models the arm properties quantify over, with pristine copies of the
constructor data (the oracle never reads the arm's private fields)."""
import math
import os

import numpy as np

from vf import refeval as rf

URDF_DIR = os.environ.get("VF_REPO", "/repo") + "/tests/test_helpers"
URDFS = ["irb_2400.urdf", "ur5.urdf", "puma_560.urdf", "ur_description/ur10.urdf", "ur_description/ur5.urdf"]
PI = math.pi


def rand_pose(rng, pscale=2.0, max_angle=PI - 0.2):
    ax = np.array([rng.gauss(0, 1) for _ in range(3)])
    ax /= np.linalg.norm(ax)
    th = rng.uniform(0.1, max_angle)
    return rf.taa_to_tm([rng.uniform(-pscale, pscale) for _ in range(3)] + list(ax * th))


def spec_6r():
    """The 6R arm of the repository's test file."""
    L1, L2, L3, W = 4.5, 3.75, 3.75, 0.1
    axes = np.array([[0, 0, 1], [0, 1, 0], [0, 1, 0], [1, 0, 0], [0, 1, 0], [1, 0, 0]], dtype=float).T
    homes = np.array([[0, 0, 0], [0, 0, L1], [L2, 0, L1], [L2 + L3, 0, L1], [L2 + L3 + W, 0, L1], [L2 + L3 + 2 * W, 0, L1]],
                     dtype=float).T
    S = np.zeros((6, 6))
    for i in range(6):
        S[:, i] = np.hstack((axes[:, i], np.cross(homes[:, i], axes[:, i])))
    M = rf.taa_to_tm([L2 + L3 + 3 * W, 0, L1, 0, 0, 0])
    return {"name": "6R-test-arm", "S": S, "M": M, "homes": homes, "axes": axes,
            "mins": np.ones(6) * -2 * PI, "maxs": np.ones(6) * 2 * PI}


def spec_random(rng, n, name=None):
    axes = np.zeros((3, n))
    homes = np.zeros((3, n))
    S = np.zeros((6, n))
    p = np.zeros(3)
    for i in range(n):
        a = np.array([rng.gauss(0, 1) for _ in range(3)])
        if rng.random() < 0.4:
            a = np.eye(3)[rng.randrange(3)] * rng.choice([-1, 1])
        a /= np.linalg.norm(a)
        p = p + np.array([rng.uniform(-0.2, 1.0), rng.uniform(-0.5, 0.5), rng.uniform(0.0, 1.0)])
        axes[:, i], homes[:, i] = a, p
        S[:, i] = np.hstack((a, np.cross(p, a)))
    M = rand_pose(rng, 0.5)
    M[:3, 3] += p + np.array([0.4, 0.1, 0.3])
    lo = np.array([rng.uniform(-2 * PI, -0.5) for _ in range(n)])
    hi = np.array([rng.uniform(0.5, 2 * PI) for _ in range(n)])
    return {"name": name or "random-%dR" % n, "S": S, "M": M, "homes": homes, "axes": axes, "mins": lo, "maxs": hi}


def build(spec, base):
    """Construct a real Arm from copies of the spec data at base pose `base` (4x4)."""
    from basic_robotics.general import tm
    from basic_robotics.kinematics import Arm
    arm = Arm(tm(np.array(base, dtype=float)), spec["S"].copy(), tm(spec["M"].copy()), spec["homes"].copy(),
              spec["axes"].copy())
    arm.setJointProperties(spec["mins"].copy(), spec["maxs"].copy())
    return arm


def load_urdf(rel):
    """A URDF arm and its spec, read back through public getters of the freshly loaded arm."""
    from basic_robotics.kinematics import loadArmFromURDF
    arm = loadArmFromURDF(os.path.join(URDF_DIR, rel))
    n = arm.num_dof
    S = np.array(arm.getScrewList(), dtype=float)
    M = np.array(arm.FK(np.zeros(n)).gTM(), dtype=float)
    spec = {"name": "urdf:" + rel, "S": S, "M": M, "homes": None, "axes": None,
            "mins": np.array(arm.joint_mins, dtype=float).copy(), "maxs": np.array(arm.joint_maxs, dtype=float).copy(),
            "urdf": rel, "base_offset": np.array(arm.getJointTransforms()[0].gTM(), dtype=float)}
    return arm, spec


def clamp(spec, th):
    return np.minimum(np.maximum(np.asarray(th, dtype=float), spec["mins"]), spec["maxs"])


def fk_expected(spec, base, tool_local, th):
    """base * PoE(home screws, clamp(theta)) * tool   (all independent of basic_robotics)"""
    P = rf.poe_space(np.eye(4), spec["S"], clamp(spec, th))
    return np.asarray(base) @ P @ np.asarray(tool_local)


def jac_space_expected(spec, base, th):
    """Space Jacobian of the arm standing on `base`: columns Ad(B e^[S1]t1 ... e^[S_{i-1}]t_{i-1}) S_i."""
    from scipy.linalg import expm
    th = clamp(spec, th)
    n = spec["S"].shape[1]
    J = np.zeros((6, n))
    T = np.asarray(base, dtype=float).copy()
    for i in range(n):
        J[:, i] = rf.adjoint(T) @ spec["S"][:, i]
        T = T @ expm(rf.hat6(spec["S"][:, i]) * th[i])
    return J
