"""Fork-based parallel map (the parent has already imported basic_robotics: children are cheap)."""
import multiprocessing as mp
import os

_FN = None


def _call(x):
    return _FN(x)


def pmap(fn, items, procs=None, chunksize=1, timeout=1500):
    global _FN
    items = list(items)
    procs = procs or min(16, os.cpu_count() or 1, max(1, len(items)))
    if procs <= 1 or len(items) <= 1:
        return [fn(x) for x in items]
    if os.environ.get("VERIF_TIER") == "thorough" or os.environ.get("VF_THOROUGH"):
        timeout = max(timeout, 6 * 3600)
    _FN = fn
    ctx = mp.get_context("fork")
    with ctx.Pool(procs) as pool:
        res = pool.map_async(_call, items, chunksize)
        try:
            return res.get(timeout)
        except mp.TimeoutError:
            pool.terminate()
            raise RuntimeError("parallel map did not finish within %ss (a worker hangs)" % timeout)
