"""Check context: verdicts, known findings, replay files, evidence."""
import hashlib
import json
import os
import sys
import time

VERIF = os.path.dirname(os.path.dirname(os.path.dirname(os.path.abspath(__file__))))
if os.environ.get("VF_REPO"):      # scratch run against another checkout: keep /verif/evidence (which describes /repo) untouched
    _alt = os.path.join(VERIF, ".cache", "alt", os.environ["VF_REPO"].strip("/").replace("/", "_"))
    EVIDENCE = os.path.join(_alt, "evidence")
    REPLAY = os.path.join(_alt, "replay")
    os.makedirs(EVIDENCE, exist_ok=True)
    os.makedirs(REPLAY, exist_ok=True)
else:
    EVIDENCE = os.path.join(VERIF, "evidence")
    REPLAY = os.path.join(VERIF, "replay")
KNOWN = os.path.join(VERIF, "known_findings.json")


def _jsonable(o):
    try:
        import numpy as np
        if isinstance(o, np.ndarray):
            return o.tolist()
        if isinstance(o, (np.floating,)):
            return float(o)
        if isinstance(o, (np.integer,)):
            return int(o)
        if isinstance(o, (np.bool_,)):
            return bool(o)
    except ImportError:
        pass
    if isinstance(o, (set, frozenset, tuple)):
        return list(o)
    if isinstance(o, bytes):
        return o.hex()
    if isinstance(o, complex):
        return [o.real, o.imag]
    from fractions import Fraction
    if isinstance(o, Fraction):
        return [o.numerator, o.denominator]
    return repr(o)


def dumps(o, **kw):
    return json.dumps(o, default=_jsonable, **kw)


class Ctx:
    def __init__(self, pid, tier="quick", seed=0, level="model_checking"):
        self.pid = pid
        self.tier = tier
        self.seed = seed
        self.level = level
        self.t0 = time.time()
        self.cov = {}
        self.assumptions = []
        self.violations = 0
        self.known_hits = {}
        self.samples = []
        self._seen_keys = set()
        self._printed = set()
        self.max_report = 5
        self.tlc_states = 0
        self.tlc_transitions = 0
        self.tlc_runs = []
        try:
            with open(KNOWN) as f:
                kf = json.load(f)
        except FileNotFoundError:
            kf = {"findings": []}
        self.known = {e["key"]: e for e in kf.get("findings", [])
                      if e.get("property") == pid and e.get("status", "known") == "known"}

    @property
    def quick(self):
        return self.tier == "quick"

    def pick(self, quick, thorough):
        return quick if self.tier == "quick" else thorough

    # ---------------------------------------------------------------- TLC bookkeeping
    def add_tlc(self, name, r):
        self.tlc_states += r.distinct
        self.tlc_transitions += r.generated
        self.tlc_runs.append({"run": name, "distinct_states": r.distinct, "states_generated": r.generated,
                              "depth": r.depth, "wall_s": round(r.wall, 2)})

    def model_violation(self, name, r):
        """The *specification* violated its own property: machinery/spec defect, exit 2."""
        sys.stdout.write("MACHINERY: TLC run %s on the model reported %s\n%s\n" %
                         (name, r.violated or r.errors[:3], r.counterexample()[:4000]))
        raise SystemExit(2)

    # ---------------------------------------------------------------- verdicts
    def sample(self, s, cap=6):
        if len(self.samples) < cap:
            self.samples.append(s)

    def violation(self, clause, case, expected=None, observed=None, tags=()):
        """Record a violation of the property by the real code.  tags: candidate known-finding keys
        (computed by the adapter from the failing case).  Returns True if it counted as new."""
        for t in tags:
            if t in self.known:
                self.known_hits[t] = self.known_hits.get(t, 0) + 1
                if t not in self._printed:
                    self._printed.add(t)
                    print("KNOWN-FINDING: property=%s %s [%s]" % (self.pid, self.known[t]["what"], t))
                return False
        self.violations += 1
        if self.violations <= self.max_report:
            body = {"property": self.pid, "clause": clause, "case": case, "expected": expected,
                    "observed": observed, "seed": self.seed, "tier": self.tier}
            txt = dumps(body, indent=1)
            h = hashlib.sha1(txt.encode()).hexdigest()[:10]
            os.makedirs(REPLAY, exist_ok=True)
            path = os.path.join(REPLAY, "%s-%s.json" % (self.pid, h))
            with open(path, "w") as f:
                f.write(txt)
            print("VIOLATION property=%s replay=%s" % (self.pid, path))
            print("  clause=%s expected=%s observed=%s" % (clause, _short(expected), _short(observed)))
        return True

    def machinery(self, msg):
        """The check itself could not do its work (exit 2) - unless violations of the property were already found and
        reported: code that breaks a property often also keeps later phases from running, and the violations are the
        verdict then (exit 1)."""
        print("MACHINERY: " + msg)
        if self.violations:
            print("%s: %d violation(s) (run incomplete)" % (self.pid, self.violations))
            raise SystemExit(1)
        raise SystemExit(2)

    # ---------------------------------------------------------------- evidence
    def finish(self, coverage, assumptions=()):
        cov = dict(coverage)
        cov.update({k: v for k, v in self.cov.items() if k not in cov})
        if self.tlc_runs:
            cov.setdefault("states", self.tlc_states)
            cov.setdefault("transitions", self.tlc_transitions)
            cov["tlc_runs"] = self.tlc_runs
        if "samples" not in cov:
            cov["samples"] = self.samples or ["(none)"]
        if self.known_hits:
            cov["known_finding_hits"] = self.known_hits
        ev = {"property_id": self.pid, "tier": self.tier, "seed": int(self.seed), "level": self.level,
              "coverage": cov, "assumptions": list(assumptions) + self.assumptions,
              "wall_s": round(time.time() - self.t0, 2), "violations": self.violations}
        os.makedirs(EVIDENCE, exist_ok=True)
        with open(os.path.join(EVIDENCE, self.pid + ".json"), "w") as f:
            f.write(dumps(ev, indent=1))
        if self.violations:
            print("%s: %d violation(s)" % (self.pid, self.violations))
            return 1
        print("%s: held on everything explored (%s, %.1fs)" % (self.pid, self.tier, time.time() - self.t0))
        return 0


def _short(x, n=300):
    s = dumps(x)
    return s if len(s) <= n else s[:n] + "..."


def load_replay(path):
    with open(path) as f:
        return json.load(f)


class Timer:
    """with ctx.timed('phase'): ...  -> per-phase wall times in the evidence file"""

    def __init__(self, ctx, name):
        self.ctx, self.name = ctx, name

    def __enter__(self):
        self.t = time.time()

    def __exit__(self, *a):
        self.ctx.cov.setdefault("phase_wall_s", {})[self.name] = round(time.time() - self.t, 2)
        if os.environ.get("VERIF_VERBOSE"):
            print("  [%s] %.1fs" % (self.name, time.time() - self.t))
        return False


def _timed(self, name):
    return Timer(self, name)


Ctx.timed = _timed
