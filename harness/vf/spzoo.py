"""Stewart-platform zoo: geometries from the library's own constructors over the ranges the
properties name, plus helpers that read the plate-fixed joint tables back through public getters."""
import json
import math
import os

import numpy as np

from vf import refeval as rf

PI = math.pi


def params(rng):
    rb = rng.uniform(0.2, 2.0)
    ratio = rng.uniform(0.3, 1.0)
    return {"rb": rb, "rt": rb * ratio, "bsp": rng.uniform(5, 40), "tsp": rng.uniform(5, 40),
            "bth": rng.uniform(0, 0.1) * rb, "tth": rng.uniform(0, 0.1) * rb,
            "lmin": rng.uniform(0.8, 1.5) * rb, "stroke": rng.uniform(1.5, 2.0), "rot": rng.choice([1, -1]),
            "masses": [rng.uniform(0.5, 5), rng.uniform(0.1, 2), rng.uniform(0.1, 2), rng.uniform(0.5, 5)],
            "cog": [rng.uniform(0.05, 0.3), rng.uniform(0.05, 0.3)]}


def rand_base(rng, scale=2.0):
    ax = np.array([rng.gauss(0, 1) for _ in range(3)])
    ax /= np.linalg.norm(ax)
    return rf.taa_to_tm([rng.uniform(-scale, scale) for _ in range(3)] + list(ax * rng.uniform(0.1, 2.5)))


def build(p, base, how="newSP", tmpdir=None):
    """how: newSP | loadSP | makeSP"""
    from basic_robotics.general import tm
    from basic_robotics.kinematics import sp_model
    lmax = p["lmin"] * p["stroke"]
    B = tm(np.array(base, dtype=float))
    if how == "newSP":
        sp = sp_model.newSP(p["rb"], p["rt"], p["bsp"], p["tsp"], p["bth"], p["tth"], p["masses"][1], p["masses"][2],
                            p["masses"][3], p["masses"][0], p["cog"][0], p["cog"][1], p["lmin"], lmax, B, "sp", p["rot"])
    elif how == "loadSP":
        d = {"Name": "sp", "BottomPlate": {"JointRadius": p["rb"], "JointSpacing": p["bsp"], "Thickness": p["bth"], "Mass": p["masses"][0]},
             "TopPlate": {"JointRadius": p["rt"], "JointSpacing": p["tsp"], "Thickness": p["tth"], "Mass": p["masses"][3]},
             "Drawing": {"TopRadius": p["rt"] * 1.1, "BottomRadius": p["rb"] * 1.1, "ShaftRadius": 0.01, "MotorRadius": 0.02},
             "Actuators": {"MinExtension": p["lmin"], "MaxExtension": lmax, "ForceLimit": 1000, "MotorMass": p["masses"][2],
                           "ShaftMass": p["masses"][1], "MotorCOGD": p["cog"][0], "ShaftCOGD": p["cog"][1]},
             "Settings": {"MaxAngleDev": 55, "AssignMasses": 1, "InferActuatorCOG": 1}}
        os.makedirs(tmpdir, exist_ok=True)
        path = os.path.join(tmpdir, "sp_%d.json" % os.getpid())
        with open(path, "w") as f:
            json.dump(d, f)
        try:
            sp = sp_model.loadSP(os.path.basename(path), tmpdir + "/", B, p["rot"])
        finally:
            os.remove(path)
    else:
        h = math.sqrt(max(1e-6, ((p["lmin"] + lmax) / 2) ** 2 - (p["rb"] - p["rt"]) ** 2 * 0.6))
        sp, _, _ = sp_model.makeSP(p["rb"], p["rt"], min(p["bsp"], p["tsp"]), B, h, p["rot"], p["bth"] + p["tth"], 0)
        sp.leg_ext_min, sp.leg_ext_max = p["lmin"] * 0.5, lmax * 1.5
    return sp


def tables(sp):
    """plate-fixed joint coordinates (3x6 each), read through public getters at the current pose"""
    B, T = sp.getBottomT().gTM(), sp.getTopT().gTM()
    bj = np.array(sp.getBottomJoints(), dtype=float)
    tj = np.array(sp.getTopJoints(), dtype=float)
    bl = (rf.trans_inv(B) @ np.vstack([bj, np.ones((1, 6))]))[:3]
    tl = (rf.trans_inv(T) @ np.vstack([tj, np.ones((1, 6))]))[:3]
    return bl, tl


def oracle_lens(bl, tl, B, T):
    pb = (np.asarray(B) @ np.vstack([bl, np.ones((1, 6))]))[:3]
    pt = (np.asarray(T) @ np.vstack([tl, np.ones((1, 6))]))[:3]
    return np.linalg.norm(pt - pb, axis=0), pb, pt


def workspace_pose(rng, h):
    """relative pose: lateral offset within 20% and height within 15% of the neutral height, rotations within 0.3 rad"""
    lat = rng.uniform(0, 0.2) * h
    a = rng.uniform(0, 2 * PI)
    return rf.taa_to_tm([lat * math.cos(a), lat * math.sin(a), h * (1 + rng.uniform(-0.15, 0.15)),
                         rng.uniform(-0.3, 0.3), rng.uniform(-0.3, 0.3), rng.uniform(-0.3, 0.3)])
