"""RefEval: float meaning of specification terms, independent of basic_robotics.

Only numpy / scipy are used.  The functions here are the harness-side oracle wherever TLC cannot
evaluate a value itself (transcendental functions of floats); on the exact palette they are
cross-checked against TLC's rational values (see adapters that use QSE3).
"""
import math

import numpy as np
from scipy.linalg import expm
from scipy.spatial.transform import Rotation as Rot


def hat3(w):
    w = np.asarray(w, dtype=float).reshape(3)
    return np.array([[0, -w[2], w[1]], [w[2], 0, -w[0]], [-w[1], w[0], 0]], dtype=float)


def vee3(m):
    return np.array([m[2, 1], m[0, 2], m[1, 0]], dtype=float)


def hat6(v):
    v = np.asarray(v, dtype=float).reshape(6)
    m = np.zeros((4, 4))
    m[:3, :3] = hat3(v[:3])
    m[:3, 3] = v[3:]
    return m


def rot_exp(w):
    """Rodrigues with a series near zero (accurate for every |w|)."""
    w = np.asarray(w, dtype=float).reshape(3)
    th = float(np.linalg.norm(w))
    k = hat3(w)
    if th < 1e-4:
        a = 1 - th * th / 6 + th ** 4 / 120
        b = 0.5 - th * th / 24 + th ** 4 / 720
    else:
        a = math.sin(th) / th
        b = (1 - math.cos(th)) / (th * th)
    return np.eye(3) + a * k + b * (k @ k)


def rot_log(r):
    """Rotation vector of a rotation matrix, accurate near 0 and near pi (quaternion based)."""
    return Rot.from_matrix(np.asarray(r, dtype=float)).as_rotvec()


def rot_angle(r):
    """Rotation angle in [0, pi] computed with atan2 (well conditioned everywhere)."""
    r = np.asarray(r, dtype=float)
    s = 0.5 * math.sqrt((r[2, 1] - r[1, 2]) ** 2 + (r[0, 2] - r[2, 0]) ** 2 + (r[1, 0] - r[0, 1]) ** 2)
    c = 0.5 * (np.trace(r) - 1)
    return math.atan2(s, c)


def taa_to_tm(a):
    """tm's convention: translation = first three entries, rotation = exp of the last three."""
    a = np.asarray(a, dtype=float).reshape(6)
    t = np.eye(4)
    t[:3, :3] = rot_exp(a[3:])
    t[:3, 3] = a[:3]
    return t


def tm_to_taa(t):
    t = np.asarray(t, dtype=float)
    return np.concatenate([t[:3, 3], rot_log(t[:3, :3])])


def trans_inv(t):
    t = np.asarray(t, dtype=float)
    r, p = t[:3, :3], t[:3, 3]
    out = np.eye(4)
    out[:3, :3] = r.T
    out[:3, 3] = -r.T @ p
    return out


def adjoint(t):
    t = np.asarray(t, dtype=float)
    r, p = t[:3, :3], t[:3, 3]
    a = np.zeros((6, 6))
    a[:3, :3] = r
    a[3:, 3:] = r
    a[3:, :3] = hat3(p) @ r
    return a


def se3_exp(v):
    """Exponential of a twist (omega, v) - series-accurate near zero."""
    v = np.asarray(v, dtype=float).reshape(6)
    w, u = v[:3], v[3:]
    th = float(np.linalg.norm(w))
    k = hat3(w)
    if th < 1e-4:
        b = 0.5 - th * th / 24 + th ** 4 / 720
        c = 1.0 / 6 - th * th / 120 + th ** 4 / 5040
    else:
        b = (1 - math.cos(th)) / (th * th)
        c = (th - math.sin(th)) / (th ** 3)
    g = np.eye(3) + b * k + c * (k @ k)
    t = np.eye(4)
    t[:3, :3] = rot_exp(w)
    t[:3, 3] = g @ u
    return t


def poe_space(m, slist, theta):
    """Product of exponentials (space form) by scipy.linalg.expm: e^[S1]t1 ... e^[Sn]tn M."""
    t = np.eye(4)
    slist = np.asarray(slist, dtype=float)
    for i in range(slist.shape[1]):
        if abs(float(theta[i])) > 50.0:
            # a joint angle of many turns (free solvers return such vectors): scaling-and-squaring loses ~eps * 2^k there,
            # the closed form with the library-independent sin/cos of the large argument does not
            t = t @ se3_exp(slist[:, i] * float(theta[i]))
        else:
            t = t @ expm(hat6(slist[:, i]) * float(theta[i]))
    return t @ np.asarray(m, dtype=float)


def rpy_to_rot(r, p, y):
    """Rx(r) @ Ry(p) @ Rz(y)  (the composition tm(..., rpy=True) documents)."""
    return rot_exp([r, 0, 0]) @ rot_exp([0, p, 0]) @ rot_exp([0, 0, y])


def quat_xyzw_to_rot(q):
    x, y, z, w = [float(v) for v in q]
    n = math.sqrt(x * x + y * y + z * z + w * w)
    x, y, z, w = x / n, y / n, z / n, w / n
    return np.array([
        [1 - 2 * (y * y + z * z), 2 * (x * y - z * w), 2 * (x * z + y * w)],
        [2 * (x * y + z * w), 1 - 2 * (x * x + z * z), 2 * (y * z - x * w)],
        [2 * (x * z - y * w), 2 * (y * z + x * w), 1 - 2 * (x * x + y * y)]])


def rot_to_quat_xyzw(r):
    return Rot.from_matrix(np.asarray(r, dtype=float)).as_quat()


def is_se3(t, tol=1e-6):
    t = np.asarray(t, dtype=float)
    if t.shape != (4, 4):
        return False
    r = t[:3, :3]
    return (np.abs(r.T @ r - np.eye(3)).max() < tol and abs(np.linalg.det(r) - 1) < tol
            and np.abs(t[3] - np.array([0, 0, 0, 1.0])).max() < tol)


def in_log_band(r):
    """Classifier of the known finding `log_near_pi`: a rotation within 3e-5 of a half turn
    (acos input (tr-1)/2 < -1 + 4.5e-10) that is not an exact half-turn matrix (R != R^T).  There the
    library's logarithm either takes its generic branch with an ill-conditioned arccos, or takes the
    half-turn branch and discards the (representable) sign information in R - R^T."""
    r = np.asarray(r, dtype=float)
    x = (r[0, 0] + r[1, 1] + r[2, 2] - 1.0) / 2.0
    return x < -1.0 + 4.5e-10 and not np.array_equal(r, r.T)


def se3_log(t):
    """Twist (omega, v) with exp = t (closed form; series near zero)."""
    t = np.asarray(t, dtype=float)
    w = rot_log(t[:3, :3])
    th = float(np.linalg.norm(w))
    k = hat3(w)
    if th < 1e-4:
        c = 1.0 / 12 + th * th / 720
    else:
        c = 1.0 / (th * th) - (1 + math.cos(th)) / (2 * th * math.sin(th))
    ginv = np.eye(3) - 0.5 * k + c * (k @ k)
    return np.concatenate([w, ginv @ t[:3, 3]])
