"""Runs in a SUBPROCESS (optionally with NUMBA_BOUNDSCHECK=1 and its own numba cache):
   python -m vf.kernel_runner probes <in.json> <out.json>   - contract probes: does the kernel raise IndexError?
   python -m vf.kernel_runner battery <seed> <out.json>     - public entry points with kernel-call logging
"""
import contextlib
import io
import json
import math
import random
import sys
import warnings
import zlib

import numpy as np

PI = math.pi
KERNELS = ("FKinSpace", "FKinBody", "JacobianSpace", "JacobianBody", "SPIKinSpace", "SPFKinSpaceR")


def probes(inp, outp):
    import basic_robotics.modern_robotics_numba.modern_high_performance as mr
    cases = json.load(open(inp))
    out = []
    rng = random.Random(1)
    for c in cases:
        cols, th = c["cols"], c["thetas"]
        S = np.zeros((6, cols))
        for j in range(cols):
            w = np.array([rng.gauss(0, 1) for _ in range(3)])
            w /= np.linalg.norm(w)
            S[:3, j], S[3:, j] = w, [rng.uniform(-1, 1) for _ in range(3)]
        theta = np.array([rng.uniform(-1, 1) for _ in range(th)])
        M = np.eye(4)
        raised = None
        try:
            if c["k"] in ("FKinSpace", "FKinBody"):
                getattr(mr, c["k"])(M, S, theta)
            else:
                getattr(mr, c["k"])(S, theta)
        except IndexError as e:
            raised = "IndexError"
        except Exception as e:
            raised = type(e).__name__ + ": " + str(e)[:100]
        out.append(dict(c, raised=raised))
    json.dump(out, open(outp, "w"))


def flat(x):
    if x is None:
        return []
    if hasattr(x, "gTM"):
        return np.asarray(x.gTM(), dtype=float).reshape(-1).tolist()
    if hasattr(x, "getData"):
        return np.asarray(x.getData(), dtype=float).reshape(-1).tolist()
    if isinstance(x, (tuple, list)):
        out = []
        for y in x:
            out.extend(flat(y))
        return out
    try:
        return np.asarray(x, dtype=float).reshape(-1).tolist()
    except Exception:
        return []


def battery(seed, outp):
    sys.path.insert(0, "/verif/harness")
    from vf import zoo, spzoo
    from vf.adapters import c02, c08, c09
    from basic_robotics.general import tm, fsr, Wrench
    import basic_robotics.general.faser_high_performance as fhp
    import basic_robotics.modern_robotics_numba.modern_high_performance as mr
    rng = random.Random(seed)
    np.random.seed(seed)
    events, results = [], []
    caller = ["?"]

    def wrap(mod, name):
        orig = getattr(mod, name)

        def logged(*a, **k):
            try:
                if name in ("FKinSpace", "FKinBody"):
                    S, th = np.asarray(a[1]), np.asarray(a[2])
                    events.append({"kernel": name, "rows": int(S.shape[0]), "cols": int(S.shape[1]), "thetas": int(th.reshape(-1).shape[0]), "caller": caller[0]})
                elif name in ("JacobianSpace", "JacobianBody"):
                    S, th = np.asarray(a[0]), np.asarray(a[1])
                    events.append({"kernel": name, "rows": int(S.shape[0]), "cols": int(S.shape[1]), "thetas": int(th.reshape(-1).shape[0]), "caller": caller[0]})
                elif name == "SPIKinSpace":
                    events.append({"kernel": name, "rows": int(np.asarray(a[2]).shape[0]), "cols": int(np.asarray(a[2]).shape[1]), "thetas": 0, "caller": caller[0]})
                elif name == "SPFKinSpaceR":
                    events.append({"kernel": name, "rows": int(np.asarray(a[2]).shape[0]), "cols": int(np.asarray(a[2]).shape[1]),
                                   "thetas": int(np.asarray(a[0]).reshape(-1).shape[0]), "caller": caller[0]})
            except Exception:
                pass
            return orig(*a, **k)
        setattr(mod, name, logged)
    # compile the jitted functions DEFINED in this module first: they refer to the kernels as module globals and
    # could not be typed once those names are rebound to the logging wrappers
    _S = np.array([[0, 0, 1, 0, 0, 0.0]]).T
    try:        # (itself a call of a public compiled kernel on a one-joint chain: an index error here is a finding, not a crash)
        fhp.IKinSpaceConstrained(_S.copy(), np.eye(4), np.eye(4), np.array([0.1]), 1e-4, 1e-5, np.array([-3.0]), np.array([3.0]), 5)
        results.append({"name": "fhp.IKinSpaceConstrained(1 joint)", "raised": None, "value": []})
    except Exception as e:
        results.append({"name": "fhp.IKinSpaceConstrained(1 joint)", "raised": type(e).__name__ + ": " + str(e)[:160], "value": []})
    for k in KERNELS:
        if hasattr(fhp, k):
            wrap(fhp, k)

    def run(name, f):
        caller[0] = name
        random.seed(zlib.crc32(name.encode()))      # the library draws restarts from `random`: same draws in both executions
        np.random.seed(zlib.crc32(name.encode()) % (2 ** 31))
        try:
            with contextlib.redirect_stdout(io.StringIO()), warnings.catch_warnings():
                warnings.simplefilter("ignore")
                r = f()
            results.append({"name": name, "raised": None, "value": flat(r)})
        except Exception as e:
            results.append({"name": name, "raised": type(e).__name__ + ": " + str(e)[:160], "value": []})
    # ---- transforms
    for k in range(6):
        A, B = c02.rand_se3(rng, 2.0), c02.rand_se3(rng, 2.0)
        a, b = tm(A.copy()), tm(B.copy())
        run("tm.matmul#%d" % k, lambda: a @ b)
        run("tm.inv#%d" % k, lambda: a.inv())
        run("tm.adjoint#%d" % k, lambda: a.adjoint())
        run("tm.exp6#%d" % k, lambda: a.exp6())
        run("tm.from6#%d" % k, lambda: tm(list(a.gTAA().reshape(6))))
        run("fsr.l2g#%d" % k, lambda: fsr.localToGlobal(a, b))
        run("fsr.g2l#%d" % k, lambda: fsr.globalToLocal(a, b))
        run("fsr.twistToGoal#%d" % k, lambda: fsr.twistToGoal(a, b))
    # ---- arms (with dynamics)
    arms = []
    for n in (1, 3, 6):
        c = c08.phys_chain(rng, n)
        arms.append(("phys%dR" % n, c08.arm_from(c["S"], c["M"], c["G"], c["masses"]), n))
    s6 = zoo.spec_6r()
    arms.append(("6R-kin", zoo.build(s6, np.eye(4)), 6))
    ur, _ = zoo.load_urdf(zoo.URDFS[1])
    arms.append(("ur5", ur, ur.num_dof))
    for an, arm, n in arms:
        th = np.array([rng.uniform(-1.5, 1.5) for _ in range(n)])
        dq = np.array([rng.uniform(-1, 1) for _ in range(n)])
        run("%s.FK" % an, lambda: arm.FK(th.copy()))
        run("%s.jacobian" % an, lambda: arm.jacobian(th.copy()))
        run("%s.jacobianBody" % an, lambda: arm.jacobianBody(th.copy()))
        run("%s.jacobianEETrans" % an, lambda: arm.jacobianEETrans(th.copy()))
        run("%s.numericalJacobian" % an, lambda: arm.numericalJacobian(th.copy()))
        for i in range(n):
            run("%s.FKJoint[%d]" % (an, i), lambda i=i: arm.FKJoint(th.copy(), i))
            if arm._link_homes_global is not None and len(arm._link_homes_global) > i:
                run("%s.FKLink[%d]" % (an, i), lambda i=i: arm.FKLink(th.copy(), i))
                run("%s.jacobianLink[%d]" % (an, i), lambda i=i: arm.jacobianLink(i, th.copy()))
        run("%s.getJointTransforms" % an, lambda: arm.getJointTransforms())
        goal = arm.FK(th.copy())
        run("%s.IK" % an, lambda: arm.IK(goal, th + 0.01)[0])
        run("%s.IK(protect)" % an, lambda: arm.IK(goal, th + 0.01, protect=True)[0])
        F = np.array([rng.uniform(-5, 5) for _ in range(6)]).reshape((6, 1))
        run("%s.staticForces" % an, lambda: arm.staticForces(Wrench(F.copy()), th.copy()))
        if an.startswith("phys"):
            g = np.array([0, 0, -9.81])
            run("%s.massMatrix" % an, lambda: arm.massMatrix(th.copy()))
            run("%s.inverseDynamics" % an, lambda: arm.inverseDynamics(th.copy(), dq.copy(), dq.copy() * 0.5, g, Wrench(F.copy()))[0])
            run("%s.inverseDynamicsC" % an, lambda: arm.inverseDynamicsC(th.copy(), dq.copy(), dq.copy() * 0.5, g, Wrench(F.copy()))[0])
            run("%s.inverseDynamicsEMR" % an, lambda: arm.inverseDynamicsEMR(th.copy(), dq.copy(), dq.copy() * 0.5, g, F.reshape(6).copy()))
            run("%s.forwardDynamics" % an, lambda: arm.forwardDynamics(th.copy(), dq.copy(), dq.copy(), g, F.reshape(6).copy()))
            run("%s.coriolisGravity" % an, lambda: arm.coriolisGravity(th.copy(), dq.copy(), g))
    # ---- Stewart platforms
    for k in range(3):
        p = spzoo.params(rng)
        with contextlib.redirect_stdout(io.StringIO()):
            sp = spzoo.build(p, np.eye(4) if k == 0 else spzoo.rand_base(rng), "newSP", c09.TMP)
        nrel = np.linalg.inv(sp.getBottomT().gTM()) @ sp.getTopT().gTM()
        T = sp.getBottomT().gTM() @ spzoo.workspace_pose(rng, float(nrel[2, 3]))
        run("SP%d.IK" % k, lambda: sp.IK(top_plate_pos=tm(T.copy()))[0])
        L = np.asarray(sp.getLens(), dtype=float).reshape(6).copy()
        run("SP%d.FK(raphson)" % k, lambda: sp.FK(L.copy(), fk_mode=1)[0])
        run("SP%d.FK(fsolve)" % k, lambda: sp.FK(L.copy(), fk_mode=0)[0])
        run("SP%d.inverseJacobian" % k, lambda: sp.inverseJacobian())
        run("SP%d.staticForces" % k, lambda: sp.staticForces(Wrench(np.array([1.0, 2, 3, 4, 5, 6]).reshape((6, 1)))))
    # ---- the ported Modern Robotics functions
    for fn in c02.shared_names():
        for k in range(2):
            _, args = c02.gen_args(fn, rng)
            run("mr.%s#%d" % (fn, k), lambda: getattr(mr, fn)(*c02.cp(args)))
    json.dump({"results": results, "events": events}, open(outp, "w"))


if __name__ == "__main__":
    if sys.argv[1] == "probes":
        probes(sys.argv[2], sys.argv[3])
    else:
        battery(int(sys.argv[2]), sys.argv[3])
