--------------------------- MODULE SegBoxTrace ---------------------------
(* C15, random part: verdicts of the real obstruction test on random segments and box sets whose
   coordinates are multiples of 1/1000 in [-10,10] (scaled to integers).  TLC decides each case
   with the exact slab procedure of SegBox (itself checked against the definition on the
   lattice) and only where the exact answer is robust: unchanged when every box is grown or
   shrunk by one unit (1e-3 >> the 1e-9 of the property, so nothing borderline is judged).   *)
EXTENDS SegBox

Cases == JsonDeserialize(IOEnv.CASE_FILE)    \* sequence of [a, b, boxes, v]
NGroups == 64
Grow(box) == <<[i \in 1 .. 3 |-> box[1][i] - 1], [i \in 1 .. 3 |-> box[2][i] + 1]>>
Shrink(box) == <<[i \in 1 .. 3 |-> box[1][i] + 1], [i \in 1 .. 3 |-> box[2][i] - 1]>>
RobustBox(p, q, box) == HitsSlab(p, q, Grow(box)) = HitsSlab(p, q, Shrink(box))
Robust(c) == \A i \in DOMAIN c.boxes : RobustBox(c.a, c.b, c.boxes[i])
Exact1(c) == \E i \in DOMAIN c.boxes : HitsSlab(c.a, c.b, c.boxes[i])
CaseOK(c) == Robust(c) => ((c.v = 1) = Exact1(c))

VARIABLES g
Group(k) == {i \in DOMAIN Cases : i % NGroups = k}
TInit == g = -1 /\ Init
TNext == g = -1 /\ g' \in 0 .. NGroups - 1 /\ UNCHANGED vars
TSpec == TInit /\ [][TNext]_<<g, vars>>
BadCases == {i \in Group(g) : ~CaseOK(Cases[i])}
AllOK == g >= 0 => BadCases = {}
Report == g >= 0 => PrintT(<<"ROBUST", g, Cardinality({i \in Group(g) : Robust(Cases[i])}),
                             Cardinality({i \in Group(g) : Robust(Cases[i]) /\ Exact1(Cases[i])})>>)
ReportBad == g >= 0 => (BadCases = {} \/ PrintT(ToJson([k |-> "BAD", s |-> BadCases])))   \* JSON: one line
=============================================================================
