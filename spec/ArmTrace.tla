--------------------------- MODULE ArmTrace ---------------------------
(* Trace validation for C07 (and the IK steps of C05 histories): recorded executions of a real arm -
   a base move, an optional tool change, then a campaign of IK calls with the residuals of each
   call projected by the harness - must be behaviours of Arm.tla whose IK steps satisfy IKPost. *)
EXTENDS Arm, IOUtils

Traces == JsonDeserialize(IOEnv.TRACE_FILE)
VARIABLES tid, l
tvars == <<vars, tid, l>>
Ev == Traces[tid].ev
TInit == tid \in DOMAIN Traces /\ l = 1 /\ Init

TMove(e) == /\ base' = e.b /\ joint' = joint /\ tool' \in {tool, Orig}
            /\ (e.toolkind = "orig" <=> tool' = Orig)                    \* what the harness observed
            /\ hist' = Append(hist, [op |-> "move"])
TSetHome(e) == /\ tool' = <<"custom", e.n, Pal(e.th), base>> /\ joint' = Known(Pal(e.th)) /\ UNCHANGED base
               /\ hist' = Append(hist, [op |-> "setArbitraryHome"])
TIK(e) == /\ IKPost(e)
          /\ joint' = IF e.ok = 1 THEN Known(<<"ik", Len(hist) + 1>>) ELSE Free
          /\ UNCHANGED <<base, tool>>
          /\ hist' = Append(hist, [op |-> "IK"])
TNext == /\ l <= Len(Ev) /\ l' = l + 1 /\ tid' = tid
         /\ LET e == Ev[l] IN
            \/ e.op = "move" /\ TMove(e)
            \/ e.op = "setArbitraryHome" /\ TSetHome(e)
            \/ e.op = "IK" /\ TIK(e)
TSpec == TInit /\ [][TNext]_tvars
Accept == (l = Len(Ev) + 1) => PrintT(<<"ACCEPT", Traces[tid].id>>)
Progress == PrintT(<<"AT", Traces[tid].id, l>>)
=============================================================================
