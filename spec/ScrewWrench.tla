--------------------------- MODULE ScrewWrench ---------------------------
(* C12: wrenches and screws change frame as a group action and add as vectors.

   Two object slots hold screws / wrenches [kind, v, den, f]: data v/den (integer 6-vector over
   a positive denominator; twist layout (omega, v), wrench layout (moment, force)) expressed in
   palette frame f.  Frames are exact rigid motions (QSE3).  Twist-like objects move with
   Ad(T_new,old), wrenches with Ad(T_old,new)^T.  Every operator of the property's alphabet is
   an action; scalar / bare-array results are plain vectors (kind "array"), as in the library.

   TLC explores all operation histories to a depth, evaluates the group-action and vector-space
   laws on every reachable object for every frame of the palette, and exports the histories
   with the exact result for replay on the real Screw / Wrench classes.                       *)
EXTENDS QSE3, TLC, Json

CONSTANTS Frames,      \* sequence of palette frames (QSE3 transforms)
          Vecs,        \* sequence of integer 6-vectors
          Pts,         \* sequence of integer 3-vectors (application points, forces)
          Ks,          \* set of non-zero integer scalars
          Ops,         \* enabled operation names
          Start,       \* "zero": both slots default-constructed; "ws" / "ww" / "ss": pre-populated wrench/screw pairs
          MaxDepth

VARIABLES obj, hist
vars == <<obj, hist>>
Slots == {1, 2}
Other(t) == 3 - t
FI == DOMAIN Frames

Obj(kind, v, den, f) == LET r == NormRV(v, den) IN [kind |-> kind, v |-> r.v, den |-> r.den, f |-> f]   \* lowest terms
Zero == Obj("screw", <<0, 0, 0, 0, 0, 0>>, 1, 1)
Rel(i, j) == NormT(Compose(Inv(Frames[i]), Frames[j]))   \* T_ij : frame j expressed in frame i
(* re-express o in frame j *)
CF(o, j) ==
    IF o.kind = "screw"
    THEN LET r == AdV(Rel(j, o.f), o.v) IN Obj("screw", r.v, r.den * o.den, j)       \* S_j = Ad(T_j,old) S_old
    ELSE LET r == AdTV(Rel(o.f, j), o.v) IN Obj("wrench", r.v, r.den * o.den, j)     \* F_j = Ad(T_old,j)^T F_old
Eqv(a, b) == a.kind = b.kind /\ a.f = b.f /\ ScaleV(a.v, b.den) = ScaleV(b.v, a.den)
Plus(a, b, sg) == Obj(a.kind, AddV(ScaleV(a.v, b.den), ScaleV(b.v, sg * a.den)), a.den * b.den, a.f)   \* same frame
AddO(a, b, sg) == Plus(a, CF(b, a.f), sg)                \* result in the left operand's frame
Scale(a, num, den) == Obj(a.kind, ScaleV(a.v, num), a.den * den, a.f)
Pair(w, s) == [n |-> DotN(w.v, s.v), d |-> w.den * s.den]           \* wrench . twist (same frame)
Wr(p, f, fr) == Obj("wrench", Cross(p, f) \o f, 1, fr)               \* force f applied at point p of frame fr

StartObj(s) ==
    CASE Start = "zero" -> Zero
      [] Start = "ws" -> IF s = 1 THEN Obj("wrench", Vecs[2], 1, 2) ELSE Obj("screw", Vecs[1], 1, 3)
      [] Start = "ww" -> IF s = 1 THEN Wr(Pts[1], Pts[2], 3) ELSE Obj("wrench", Vecs[2], 1, 4)
      [] Start = "ss" -> IF s = 1 THEN Obj("screw", Vecs[2], 1, 4) ELSE Obj("screw", Vecs[1], 1, 2)
Init == obj = [s \in Slots |-> StartObj(s)] /\ hist = <<>>
Can(op) == op \in Ops /\ Len(hist) < MaxDepth
Put(t, o, rec) == obj' = [obj EXCEPT ![t] = o] /\ hist' = Append(hist, rec @@ [t |-> t])
IsObj(o) == o.kind \in {"screw", "wrench"}

New(t) == Can("new") /\ \E kind \in {"screw", "wrench"}, vi \in DOMAIN Vecs, f \in FI, shape \in {"col", "flat"} :
             Put(t, Obj(kind, Vecs[vi], 1, f), [op |-> "new", kind |-> kind, vi |-> vi, f |-> f, shape |-> shape])
MakeWrench(t) == Can("makeWrench") /\ \E pi \in DOMAIN Pts, fi \in DOMAIN Pts, f \in FI :
             Put(t, Wr(Pts[pi], Pts[fi], f), [op |-> "makeWrench", pi |-> pi, fi |-> fi, f |-> f])
ChangeFrame(t) == Can("changeFrame") /\ IsObj(obj[t]) /\ \E j \in FI, how \in {"implicit", "explicit", "fsr"} :
             /\ (how = "fsr" => obj[t].kind = "wrench")             \* fsr.transformWrenchFrame
             /\ Put(t, CF(obj[t], j), [op |-> "changeFrame", f |-> j, how |-> how])
(* changeFrame(new, old) with an explicit old frame that is NOT the recorded one: the data is read as being
   expressed in `old` (this is how fsr.transformWrenchFrame is meant to be used on raw data) *)
ChangeFrameFrom(t) == Can("changeFrameFrom") /\ IsObj(obj[t]) /\ \E j \in FI, i \in FI, how \in {"method", "fsr"} :
             /\ (how = "fsr" => obj[t].kind = "wrench")
             /\ i # j        \* old = new with a different recorded frame: nothing to re-express; what is recorded then is not specified
             /\ Put(t, CF([obj[t] EXCEPT !.f = i], j), [op |-> "changeFrameFrom", f |-> j, old |-> i, how |-> how])
AddSub(t) == Can("addsub") /\ IsObj(obj[t]) /\ obj[Other(t)].kind = obj[t].kind /\ \E sg \in {1, -1} :
             Put(t, AddO(obj[t], obj[Other(t)], sg), [op |-> "addsub", sg |-> sg])
VecOp(t) == Can("vecop") /\ IsObj(obj[t]) /\ \E w \in {"add", "sub", "rsub", "radd"}, vi \in DOMAIN Vecs, shape \in {"col", "flat"} :
             LET b == Obj(obj[t].kind, Vecs[vi], 1, obj[t].f)
                 r == CASE w \in {"add", "radd"} -> Plus(obj[t], b, 1)
                        [] w = "sub" -> Plus(obj[t], b, -1)
                        [] w = "rsub" -> Plus(b, obj[t], -1)
             IN Put(t, r, [op |-> "vecop", w |-> w, vi |-> vi, shape |-> shape])
ScalOp(t) == Can("scalop") /\ IsObj(obj[t]) /\ \E w \in {"add", "sub", "rsub", "radd"}, s \in Ks :
             LET ones == Obj("array", <<s, s, s, s, s, s>>, 1, obj[t].f)
                 a == [obj[t] EXCEPT !.kind = "array"]
                 r == CASE w \in {"add", "radd"} -> Plus(a, ones, 1)
                        [] w = "sub" -> Plus(a, ones, -1)
                        [] w = "rsub" -> Plus(ones, a, -1)
             IN Put(t, r, [op |-> "scalop", w |-> w, s |-> s])      \* the library returns a bare array here
MulDiv(t) == Can("muldiv") /\ IsObj(obj[t]) /\ \E w \in {"mul", "rmul", "div"}, k \in Ks :
             Put(t, IF w = "div" THEN Scale(obj[t], 1, k) ELSE Scale(obj[t], k, 1), [op |-> "muldiv", w |-> w, k |-> k])
Copy(t) == Can("copy") /\ IsObj(obj[Other(t)]) /\ Put(t, obj[Other(t)], [op |-> "copy"])

Next == \E t \in Slots : New(t) \/ MakeWrench(t) \/ ChangeFrame(t) \/ ChangeFrameFrom(t) \/ AddSub(t) \/ VecOp(t) \/ ScalOp(t) \/ MulDiv(t) \/ Copy(t)
Spec == Init /\ [][Next]_vars

(* ============================ laws, on every reachable object ============================ *)
Live == {s \in Slots : IsObj(obj[s])}
NormDen == \A s \in Slots : obj[s].den # 0
RoundTrip == \A s \in Live, j \in FI : Eqv(CF(CF(obj[s], j), obj[s].f), obj[s])            \* A -> B -> A
Functorial == \A s \in Live, j \in FI, k \in FI : Eqv(CF(CF(obj[s], j), k), CF(obj[s], k))  \* A -> B -> C = A -> C
RecordsFrame == \A s \in Live, j \in FI : CF(obj[s], j).f = j
PowerInvariant ==        \* wrench . twist is the same in every frame
    \A a \in Live, b \in Live : (obj[a].kind = "wrench" /\ obj[b].kind = "screw") =>
        \A j \in FI, k \in FI :
            LET p1 == Pair(CF(obj[a], j), CF(obj[b], j))  p2 == Pair(CF(obj[a], k), CF(obj[b], k))
            IN p1.n * p2.d = p2.n * p1.d
SumEquivariant ==        \* sums across frames = sum after expressing both in the left operand's frame, in any frame
    \A a \in Live, b \in Live : (a # b /\ obj[a].kind = obj[b].kind) =>
        \A j \in FI : /\ Eqv(CF(AddO(obj[a], obj[b], 1), j), AddO(CF(obj[a], j), CF(obj[b], j), 1))
                      /\ Eqv(AddO(AddO(obj[a], obj[b], 1), obj[b], -1), obj[a])             \* (a+b)-b = a
                      /\ Eqv(AddO(obj[a], obj[b], -1), AddO(obj[a], Scale(obj[b], -1, 1), 1))  \* a-b = a+(-b)
ScaleLaws == \A s \in Live, k \in Ks : Eqv(Scale(Scale(obj[s], k, 1), 1, k), obj[s])        \* (k a)/k = a
(* a force applied at a point: moment p x f about the origin, none about its own point *)
MomentLaw == \A pi \in DOMAIN Pts, fi \in DOMAIN Pts, f \in FI :
    LET w == Wr(Pts[pi], Pts[fi], f)
        T == Tf(QId, Pts[pi], 1)                       \* frame at the application point, same orientation
        r == AdTV(T, w.v)                              \* F_new = Ad(T_old,new)^T F_old
    IN /\ <<w.v[1], w.v[2], w.v[3]>> = Cross(Pts[pi], Pts[fi])
       /\ <<r.v[1], r.v[2], r.v[3]>> = <<0, 0, 0>>
       /\ <<r.v[4], r.v[5], r.v[6]>> = ScaleV(Pts[fi], r.den)
(* relative rotations of the palette stay away from half turns (keeps the code's log well-conditioned) *)
PaletteOK == \A i \in FI, j \in FI : QMul(QConj(Frames[i].q), Frames[j].q)[1] # 0

View == <<obj, Len(hist)>>
Dump == (Len(hist) = MaxDepth) => PrintT(ToJson([h |-> hist, s |-> obj]))
=============================================================================
