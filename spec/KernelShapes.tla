--------------------------- MODULE KernelShapes ---------------------------
(* C17: compiled kernels never index out of bounds.

   Each nopython kernel that indexes with loop counters derived from argument lengths has a SHAPE
   CONTRACT InBounds(kernel, shape): the condition under which every index it forms stays inside
   the arrays it is given (read off its loops).  Each Python-level caller that hands the kernel
   column / prefix slices is an action producing a shape.  TLC checks, for every arm size n and every
   link / joint index i, that every call a caller makes satisfies the callee's contract
   (CallersRespectContracts).  The contracts are bound to the compiled code by running each kernel
   under NUMBA_BOUNDSCHECK=1 on shapes on both sides of the contract (the exported Probe cases):
   InBounds <=> no IndexError; and the real callers are bound by validating the shapes they were
   observed to pass (KernelTrace).                                                              *)
EXTENDS Integers, Sequences, FiniteSets, TLC, Json

CONSTANT MaxN

(* shape of a chain-kernel call: screw table rows x cols, length of the joint vector *)
Sh(r, c, t) == [rows |-> r, cols |-> c, thetas |-> t]
ChainKernels == {"FKinSpace", "FKinBody", "JacobianSpace", "JacobianBody"}
InBounds(k, s) ==
    CASE k \in ChainKernels -> s.rows = 6 /\ s.thetas <= s.cols /\ s.thetas >= 0
      [] k = "SPIKinSpace" -> s.rows = 3 /\ s.cols = 6                 \* joint tables are 3 x 6
      [] k = "SPFKinSpaceR" -> s.rows = 6 /\ s.cols = 3 /\ s.thetas = 6  \* transposed tables 6 x 3, six lengths
      [] OTHER -> TRUE

(* callers: the calls they make for an arm with n joints and index i in 0 .. n-1 *)
Calls(caller, n, i) ==
    CASE caller = "Arm.FK" -> {<<"FKinSpace", Sh(6, n, n)>>}
      [] caller = "Arm.FKLink" -> {<<"FKinSpace", Sh(6, i + 1, i + 1)>>}        \* joints 0..i move link i
      [] caller = "Arm.FKJoint" -> {<<"FKinSpace", Sh(6, i + 1, i + 1)>>}
      [] caller = "Arm.jacobian" -> {<<"JacobianSpace", Sh(6, n, n)>>}
      [] caller = "Arm.jacobianBody" -> {<<"JacobianBody", Sh(6, n, n)>>}
      [] caller = "Arm.jacobianLink" -> {<<"JacobianSpace", Sh(6, i + 1, i + 1)>>, <<"FKinSpace", Sh(6, i + 1, i + 1)>>}
      [] caller = "Arm.massMatrix" -> UNION {{<<"JacobianSpace", Sh(6, j + 1, j + 1)>>, <<"FKinSpace", Sh(6, j + 1, j + 1)>>} : j \in 0 .. n - 1}
      [] caller = "SP.IK" -> {<<"SPIKinSpace", Sh(3, 6, 0)>>}
      [] caller = "SP.FK" -> {<<"SPFKinSpaceR", Sh(6, 3, 6)>>, <<"SPIKinSpace", Sh(3, 6, 0)>>}
Callers == {"Arm.FK", "Arm.FKLink", "Arm.FKJoint", "Arm.jacobian", "Arm.jacobianBody", "Arm.jacobianLink", "Arm.massMatrix", "SP.IK", "SP.FK"}

VARIABLES n, i
vars == <<n, i>>
Init == n = 0 /\ i = 0
Next == n = 0 /\ n' \in 1 .. MaxN /\ i' \in 0 .. MaxN - 1
Spec == Init /\ [][Next]_vars
CallersRespectContracts == (n > 0 /\ i < n) => \A c \in Callers : \A call \in Calls(c, n, i) : InBounds(call[1], call[2])
(* what the current library did before the repair: FKLink passed i columns with i+1 joint values *)
OldFKLink(nn, ii) == <<"FKinSpace", Sh(6, ii, ii + 1)>>
OldFKLinkBreaksContract == (n > 0 /\ i < n) => ~InBounds(OldFKLink(n, i)[1], OldFKLink(n, i)[2])

(* probe cases on both sides of each contract, for the bounds-checked runs *)
Probes == {[k |-> k, s |-> Sh(6, c, t)] : k \in ChainKernels, c \in 1 .. 4, t \in 0 .. 5}
DumpProbes == n = 0 => PrintT(ToJson([probes |-> {[k |-> p.k, cols |-> p.s.cols, thetas |-> p.s.thetas, ok |-> InBounds(p.k, p.s)] : p \in Probes}]))
=============================================================================
