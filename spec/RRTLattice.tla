--------------------------- MODULE RRTLattice ---------------------------
(* Lattice instance of RRTStar for exhaustive exploration by TLC: integer positions, the
   spatial index answers by squared Euclidean distance (all ties are possible answers, as
   with rtree), the caller's metric is a weighted L1 (deliberately different from the index metric, so
   nearest /= cheapest), the caller's collision detector is exact segment-vs-box (SegGeom).  *)
EXTENDS RRTStar, SegGeom, TLC, Json

CONSTANTS Pts,          \* set of sample positions <<x,y,z>>
          Root,         \* root position
          Boxes,        \* set of obstruction boxes <<lo,hi>>
          KNN,          \* nearest-neighbour limit
          Iter,         \* iteration budget = number of accepted samples
          MaxRej        \* bound on rejected samples in one history

VARIABLES pos,          \* Seq of positions, parallel to tree
          hist,         \* every sample drawn, in order: [p, acc]
          lastN0, lastExam   \* observation of the last Place (for the action property)
vars == <<tree, pos, hist, lastN0, lastExam>>

(* the caller's metric: anisotropic weighted L1 - deliberately far from the index's Euclidean metric, so that
   "nearest" and "cheapest" differ often and a planner that mixes the two metrics up is exposed *)
L1(p, q) == 3 * Abs(p[1] - q[1]) + Abs(p[2] - q[2]) + 2 * Abs(p[3] - q[3])
E2(p, q) == (p[1] - q[1]) * (p[1] - q[1]) + (p[2] - q[2]) * (p[2] - q[2]) + (p[3] - q[3]) * (p[3] - q[3])
Coll(p, q) == \E b \in Boxes : HitsSlab(p, q, b)
N == Len(tree)
Nearest(p) == {j \in 1 .. N : \A i \in 1 .. N : E2(p, pos[j]) <= E2(p, pos[i])}
(* legitimate answers to a k-nearest query: everything strictly closer than the k-th distance,
   plus any of the ties at the k-th distance, at least min(k, N) nodes in all *)
KthDist(p, k) == CHOOSE r \in {E2(p, pos[j]) : j \in 1 .. N} :
                    /\ Cardinality({j \in 1 .. N : E2(p, pos[j]) < r}) < k
                    /\ Cardinality({j \in 1 .. N : E2(p, pos[j]) <= r}) >= (IF k < N THEN k ELSE N)
ExamSets(p, k) == LET r == KthDist(p, k)
                      closer == {j \in 1 .. N : E2(p, pos[j]) < r}
                      ties == {j \in 1 .. N : E2(p, pos[j]) = r}
                  IN {closer \cup T : T \in {S \in SUBSET ties : Cardinality(closer \cup S) >= (IF k < N THEN k ELSE N)}}

Init == /\ tree = <<[parent |-> 0, cost |-> 0, dn |-> 0]>>
        /\ pos = <<Root>> /\ hist = <<>> /\ lastN0 = 0 /\ lastExam = {}

Accepted == Len(tree) - 1
Draw(p) ==
    /\ Accepted < Iter
    /\ \E n0 \in Nearest(p) :
        LET dv == [j \in 1 .. N |-> L1(p, pos[j])]
            cv == [j \in 1 .. N |-> Coll(p, pos[j])]
        IN  IF ~Accepts(dv[n0], cv[n0])
            THEN /\ RejectOK(n0, dv[n0], cv[n0])
                 /\ Len(hist) - Accepted < MaxRej      \* bound on rejected samples in a history
                 /\ hist' = Append(hist, [p |-> p, acc |-> 0])
                 /\ UNCHANGED <<tree, pos, lastN0, lastExam>>
            ELSE \E exam \in ExamSets(p, KNN) : \E parent \in Cands(n0, exam, cv) :
                 /\ Place(n0, exam, dv, cv, parent, Val(parent, dv))
                 /\ pos' = Append(pos, p)
                 /\ hist' = Append(hist, [p |-> p, acc |-> 1])
                 /\ lastN0' = n0 /\ lastExam' = exam
Next == \E p \in Pts : Draw(p)
Spec == Init /\ [][Next]_vars

(* ---------------- properties checked on the design ---------------- *)
CostConsistent == \A i \in 2 .. N : tree[i].cost = tree[tree[i].parent].cost + L1(pos[i], pos[tree[i].parent])
EdgesFree == \A i \in 2 .. N : ~Coll(pos[i], pos[tree[i].parent])
OneNodePerIteration == N = 1 + Cardinality({i \in DOMAIN hist : hist[i].acc = 1}) /\ N <= Iter + 1
DistinctPositions == MinD > 0 => \A i, j \in 1 .. N : pos[i] = pos[j] => i = j
(* at insertion the new node is attached to the cheapest collision-free candidate examined *)
CheapestStep ==
    (Len(tree') = Len(tree) + 1) =>
        LET i == Len(tree')  p == pos'[i]
            free == {lastN0'} \cup {j \in lastExam' : ~Coll(p, pos[j])}
        IN /\ tree'[i].parent \in free
           /\ \A j \in free : tree'[i].cost <= tree[j].cost + L1(p, pos[j])
           /\ lastN0' \in Nearest(p)
           /\ SubSeq(tree', 1, Len(tree)) = tree                \* existing nodes are never rewired
CheapestParent == [][CheapestStep]_vars
(* the path to any goal: parent chain of the node nearest the goal, root first *)
PathInTree == \A g \in Pts : \A j \in Nearest(g) :
                 LET c == ChainTo(tree, j) IN
                 /\ c[1] = 1 /\ c[Len(c)] = j
                 /\ \A k \in 2 .. Len(c) : tree[c[k]].parent = c[k - 1]

View == <<tree, pos, Len(hist)>>
Dump == (Accepted = Iter) => PrintT(ToJson([h |-> hist]))
=============================================================================
