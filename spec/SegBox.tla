--------------------------- MODULE SegBox ---------------------------
(* C15: the planner's obstruction test equals exact segment-versus-closed-box intersection.

   Hits  - the DEFINITION (not an algorithm): some point of the segment lies in the closed box.
           On the integer lattice used here every end point of a per-axis parameter interval
           (lo-a)/d, (hi-a)/d has a denominator d in 1..2R, so a non-empty intersection
           contains a parameter k/K with K = lcm(1..2R) (60 for R = 3): the bounded
           existential is exact, and closed (touching counts).
   SAT   - a transcription, in integers scaled by 4, of the six-axis separating test the
           code performs (three box axes, three cross-product axes).
   Table - verdicts recorded from the real RRTStar.obstruction for every segment of the
           lattice against sets of boxes (read from IOEnv.TABLE_FILE when present).

   TLC checks  SAT = Hits  (the algorithm is right) and  Table = Obstructed  (the code is the
   algorithm) for every segment x every box set.  The case generator is a three-level tree
   (seed -> a -> (a,b)) so that the work spreads over all TLC workers.                       *)
EXTENDS SegGeom, TLC, Json, IOUtils

CONSTANTS R         \* segment end points range over (-R..R)^3;  K (from SegGeom) = lcm(1..2R)
Coord == -R .. R

Input == JsonDeserialize(IOEnv.TABLE_FILE)   \* [sets |-> <<<<box,..>>,..>>, tab |-> ..., hasTab |-> 0/1]
Sets == Input.sets                           \* sequence of box sets; a box is <<lo3, hi3>>
HasTab == Input.hasTab = 1

Obstructed(a, b, set) == \E i \in DOMAIN set : Hits(a, b, set[i])

Idx(p) == (p[1] + R) * (2 * R + 1) * (2 * R + 1) + (p[2] + R) * (2 * R + 1) + (p[3] + R) + 1
Impl(s, a, b) == Input.tab[s][Idx(a)][Idx(b)] = 1

VARIABLES stage, a, b
vars == <<stage, a, b>>
Origin == <<0, 0, 0>>
Init == stage = 0 /\ a = Origin /\ b = Origin
Next == \/ /\ stage = 0 /\ stage' = 1 /\ b' = Origin
           /\ \E x, y, z \in Coord : a' = <<x, y, z>>
        \/ /\ stage = 1 /\ stage' = 2 /\ a' = a
           /\ \E x, y, z \in Coord : b' = <<x, y, z>>
Spec == Init /\ [][Next]_vars

(* One evaluation of the definition per (unordered segment, box); everything else is compared
   with it: the transcribed algorithm, the slab procedure, the definition with the end points
   swapped, and the verdicts of the real code for both orientations.  Only states with
   Idx(a) <= Idx(b) do the work (the other orientation is covered through the swapped terms). *)
Work == stage = 2 /\ Idx(a) <= Idx(b)
HitVec(s) == [i \in DOMAIN Sets[s] |-> Hits(a, b, Sets[s][i])]
SetOK(s) == LET hv == HitVec(s)
                any == \E i \in DOMAIN hv : hv[i]
            IN  /\ \A i \in DOMAIN hv :
                     /\ SAT(a, b, Sets[s][i]) = hv[i]          \* the algorithm equals the definition
                     /\ SAT(b, a, Sets[s][i]) = hv[i]
                     /\ HitsSlab(a, b, Sets[s][i]) = hv[i]     \* so does the slab oracle
                     /\ HitsSlab(b, a, Sets[s][i]) = hv[i]
                /\ HasTab => (Impl(s, a, b) = any /\ Impl(s, b, a) = any)   \* the code equals the definition
Exact == Work => \A s \in DOMAIN Sets : SetOK(s)
(* split for diagnosis: which of the three comparisons failed *)
SatIsExact == Work => \A s \in DOMAIN Sets : \A i \in DOMAIN Sets[s] :
                  SAT(a, b, Sets[s][i]) = Hits(a, b, Sets[s][i]) /\ SAT(b, a, Sets[s][i]) = Hits(a, b, Sets[s][i])
SlabIsExact == Work => \A s \in DOMAIN Sets : \A i \in DOMAIN Sets[s] :
                  HitsSlab(a, b, Sets[s][i]) = Hits(a, b, Sets[s][i])
ImplIsExact == (Work /\ HasTab) => \A s \in DOMAIN Sets :
                  Impl(s, a, b) = Obstructed(a, b, Sets[s]) /\ Impl(s, b, a) = Obstructed(a, b, Sets[s])
HitsSymmetric == Work => \A s \in DOMAIN Sets : \A i \in DOMAIN Sets[s] :
                  Hits(a, b, Sets[s][i]) = Hits(b, a, Sets[s][i])
=============================================================================
