--------------------------- MODULE Urdf ---------------------------
(* C13: loading a URDF preserves the kinematics the file describes.

   An abstract single-chain URDF is a sequence of joints.  Each joint has a type (revolute /
   continuous / fixed), an <origin> whose xyz and rpy are each given or omitted (or the whole
   element omitted), an <axis> given or omitted, and limits.  The file's own semantics is
       Chain(theta) = PRODUCT over joints of  Origin_j * (Rot(axis_j, theta_j) if the joint moves)
       Origin = Trans(xyz) * Rz(yaw) * Ry(pitch) * Rx(roll);  defaults: zero, zero, the x axis
   On the exact palette used here (integer xyz, roll/pitch/yaw and joint values multiples of
   pi/2, coordinate axes) every factor is an exact rigid motion (QSE3), so TLC COMPUTES the tool
   pose the loaded arm must report.  TLC builds files joint by joint (all structures to a size,
   then random larger ones by simulation), checks the structural lemmas, and exports every
   finished file with its degrees of freedom, joint order, limits and exact poses.            *)
EXTENDS QSE3, TLC, Json

CONSTANTS MaxJoints,      \* maximal number of joints (moving + fixed)
          MaxMoving,
          XYZs,           \* set of integer translations
          Quarter,        \* set of quarter-turn counts usable for roll / pitch / yaw
          Axes,           \* set of axis names, subset of {"x","y","z","-z","-x"}
          Omit            \* TRUE: optional parts may be omitted

VARIABLES joints, done, world
vars == <<joints, done, world>>

AxisVec(a) == CASE a = "x" -> <<1, 0, 0>> [] a = "y" -> <<0, 1, 0>> [] a = "z" -> <<0, 0, 1>>
                [] a = "-z" -> <<0, 0, -1>> [] a = "-x" -> <<-1, 0, 0>> [] a = "none" -> <<1, 0, 0>>
QuarterQ(v, k) ==      \* rotation by k * pi/2 about the unit coordinate vector v
    LET kk == k % 4 IN
    CASE kk = 0 -> <<1, 0, 0, 0>> [] kk = 1 -> <<1, v[1], v[2], v[3]>>
      [] kk = 2 -> <<0, v[1], v[2], v[3]>> [] kk = 3 -> <<1, -v[1], -v[2], -v[3]>>
RpyQ(r, p, y) == QMul(QuarterQ(<<0, 0, 1>>, y), QMul(QuarterQ(<<0, 1, 0>>, p), QuarterQ(<<1, 0, 0>>, r)))
Origin(j) ==       \* omitted parts carry their defaults in the record (xyz = 0, rpy = 0) and a has* flag
    Tf(RpyQ(j.rpy[1], j.rpy[2], j.rpy[3]), j.xyz, 1)
Moving(j) == j.type # "fixed"
JointTf(j, k) == IF Moving(j) THEN Compose(Origin(j), Tf(QuarterQ(AxisVec(j.axis), k), <<0, 0, 0>>, 1)) ELSE Origin(j)

RECURSIVE ChainFrom(_, _, _)
ChainFrom(js, ks, acc) ==      \* ks: quarter-turn counts of the moving joints, in order
    IF js = <<>> THEN acc
    ELSE IF Moving(Head(js)) THEN ChainFrom(Tail(js), Tail(ks), NormT(Compose(acc, JointTf(Head(js), Head(ks)))))
    ELSE ChainFrom(Tail(js), ks, NormT(Compose(acc, JointTf(Head(js), 0))))
Chain(js, ks) == ChainFrom(js, ks, TId)
MovingIdx(js) == {i \in DOMAIN js : Moving(js[i])}
Dof(js) == Cardinality(MovingIdx(js))

(* folding: a fixed joint contributes its origin only - dropping it and pre-multiplying the next joint's
   origin (or the tool) by it leaves the chain unchanged.  Stated on the partial products.              *)
RECURSIVE Prefix(_, _, _)
Prefix(js, ks, n) == IF n = 0 THEN TId ELSE Chain(SubSeq(js, 1, n), SubSeq(ks, 1, Cardinality({i \in 1 .. n : Moving(js[i])})))

Init == joints = <<>> /\ done = FALSE /\ world \in BOOLEAN
Z3 == <<0, 0, 0>>
OC(x, r, ho, hx, hr) == [xyz |-> x, rpy |-> r, hasOrigin |-> ho, hasXyz |-> hx, hasRpy |-> hr]
OriginChoices ==
    {OC(x, <<r, p, y>>, TRUE, TRUE, TRUE) : x \in XYZs, r \in Quarter, p \in Quarter, y \in Quarter}
    \cup (IF Omit THEN {OC(Z3, Z3, FALSE, FALSE, FALSE)}                                        \* no <origin> element
                        \cup {OC(Z3, <<r, 0, y>>, TRUE, FALSE, TRUE) : r \in Quarter, y \in Quarter}   \* xyz omitted
                        \cup {OC(x, Z3, TRUE, TRUE, FALSE) : x \in XYZs}                      \* rpy omitted
          ELSE {})
AddJoint ==
    /\ ~done /\ Len(joints) < MaxJoints
    /\ \E ty \in {"revolute", "continuous", "fixed"}, o \in OriginChoices, a \in Axes \cup (IF Omit THEN {"none"} ELSE {}), lim \in {1, 2} :
        /\ (ty # "fixed" => Dof(joints) < MaxMoving)
        /\ (ty = "fixed" => a = CHOOSE x \in Axes : TRUE)           \* a fixed joint has no axis: one representative
        /\ (ty # "revolute" => lim = 1)
        /\ joints' = Append(joints, [type |-> ty, xyz |-> o.xyz, rpy |-> o.rpy, hasOrigin |-> o.hasOrigin,
                                     hasXyz |-> o.hasXyz, hasRpy |-> o.hasRpy, axis |-> a, lim |-> lim])
    /\ UNCHANGED <<done, world>>
Finish == ~done /\ Dof(joints) >= 1 /\ done' = TRUE /\ UNCHANGED <<joints, world>>
Next == AddJoint \/ Finish
Spec == Init /\ [][Next]_vars

(* ---------------- lemmas checked on every finished file ---------------- *)
Ks == {<<0>>, <<1>>, <<2>>, <<3>>}
KVecs(n) == IF n = 1 THEN {<<k>> : k \in 0 .. 3}
            ELSE IF n = 2 THEN {<<1, 3>>, <<2, 1>>, <<0, 0>>, <<3, 2>>}
            ELSE {[i \in 1 .. n |-> (i * 3 + 1) % 4], [i \in 1 .. n |-> 0], [i \in 1 .. n |-> (i + 1) % 4], [i \in 1 .. n |-> (2 * i) % 4]}
DofIsMoving == done => Dof(joints) = Cardinality({i \in DOMAIN joints : joints[i].type \in {"revolute", "continuous"}})
ChainRigid == done => \A ks \in KVecs(Dof(joints)) : Rigid(Chain(joints, ks))
(* dropping trailing fixed joints changes the tool pose exactly by their origins *)
FoldFixed == done => \A ks \in KVecs(Dof(joints)) :
    \A n \in 1 .. Len(joints) :
        (joints[n].type = "fixed") =>
            Same(Prefix(joints, ks, n), Compose(Prefix(joints, ks, n - 1), Origin(joints[n])))
DefaultsExact == done => \A i \in DOMAIN joints :
    /\ (joints[i].hasOrigin = FALSE => Same(Origin(joints[i]), TId))
    /\ (joints[i].axis = "none" => AxisVec(joints[i].axis) = <<1, 0, 0>>)

Dump == done => PrintT(ToJson([joints |-> joints, world |-> world, dof |-> Dof(joints),
                               poses |-> [ks \in KVecs(Dof(joints)) |-> Mat4(Chain(joints, ks))]]))
=============================================================================
