--------------------------- MODULE KernelTrace ---------------------------
(* C17, code -> spec: every Python -> kernel call observed while the public Arm / SP / tm / MR entry
   points run (logged by wrapping the kernel attributes of the JIT modules) must satisfy the callee's
   shape contract.  Events: [kernel, rows, cols, thetas, caller]. *)
EXTENDS KernelShapes, IOUtils
Events == JsonDeserialize(IOEnv.TRACE_FILE)
Bad == {j \in DOMAIN Events : ~InBounds(Events[j].kernel, Sh(Events[j].rows, Events[j].cols, Events[j].thetas))}
Report == n = 0 => (Bad = {} \/ PrintT(ToJson([k |-> "BAD", s |-> Bad])))
Checked == n = 0 => PrintT(ToJson([k |-> "CHECKED", n |-> Len(Events)]))
=============================================================================
