--------------------------- MODULE Helpers ---------------------------
(* C18 (exact part): defining relations of the geometric helper functions, in exact arithmetic.

   Mirror(F, x)    reflection of the point x across the local XY plane of the frame F:
                   F * diag(1,1,-1) * F^-1 x.   Lemmas: involution; points of the plane are fixed;
                   only the local z coordinate changes sign - for frames that are rotated AND do
                   not pass through the world origin.
   Plane(p1,p2,p3) <<a,b,c,d>> with normal (p3-p1) x (p2-p1) and a x + b y + c z = d: contains
                   its three defining points.
   MidPos          mean position.      Path(a,b,N)  N evenly spaced six-vectors from a to b.
   GapStep(a,b,k)  a + k * (b-a)/|b-a| for Pythagorean differences (|b-a| integer): advances by
                   exactly k toward b and stays on the segment.
   Wrap(x)         x - 2 pi n  is modelled on the integer multiples: angles are given as
                   (numerator of) multiples of pi/6, wrapping subtracts multiples of 12.
   TLC evaluates the lemmas on a palette and exports the exact mirror images / plane
   coefficients / path points for comparison with basic_robotics.general.fsr.                  *)
EXTENDS QSE3, TLC, Json

CONSTANTS Frames,     \* sequence of QSE3 frames (rotated, off-origin)
          Points      \* sequence of integer 3-vectors

VARIABLES st, fi, pi
vars == <<st, fi, pi>>
Init == st = 0 /\ fi = 1 /\ pi = 1
Next == st = 0 /\ st' = 1 /\ fi' \in DOMAIN Frames /\ pi' \in DOMAIN Points
Spec == Init /\ [][Next]_vars

RV(v, den) == NormRV(v, den)
Local(F, x, xd) == LET a == Act(Inv(F), x, xd) IN RV(a.v, a.den)          \* coordinates of x in frame F
Global(F, y) == LET a == Act(F, y.v, y.den) IN RV(a.v, a.den)
FlipZ(y) == [v |-> <<y.v[1], y.v[2], -y.v[3]>>, den |-> y.den]
Mirror(F, x, xd) == Global(F, FlipZ(Local(F, x, xd)))

F0 == Frames[fi]
X0 == Points[pi]
MirrorInvolution == st = 1 => LET m == Mirror(F0, X0, 1) IN Mirror(F0, m.v, m.den) = RV(X0, 1)
MirrorNegatesLocalZ == st = 1 => LET l == Local(F0, X0, 1)  m == Mirror(F0, X0, 1)  lm == Local(F0, m.v, m.den) IN
                          lm = FlipZ(l)
MirrorFixesPlane == st = 1 => \A a \in -2 .. 2, b \in {-1, 3} :
                          LET p == Global(F0, RV(<<a, b, 0>>, 1)) IN Mirror(F0, p.v, p.den) = p
MirrorMovesOffPlane == st = 1 => (Local(F0, X0, 1).v[3] # 0 => Mirror(F0, X0, 1) # RV(X0, 1))

Plane(p1, p2, p3) == LET n == Cross(SubV(p3, p1), SubV(p2, p1)) IN <<n[1], n[2], n[3], Dot3(n, p3)>>
OnPlane(pl, p) == pl[1] * p[1] + pl[2] * p[2] + pl[3] * p[3] = pl[4]
PlaneContains == st = 1 => \A j \in DOMAIN Points, k \in DOMAIN Points :
                     LET pl == Plane(X0, Points[j], Points[k]) IN OnPlane(pl, X0) /\ OnPlane(pl, Points[j]) /\ OnPlane(pl, Points[k])

(* straight path of N six-vectors: point i (0-based) = a + i (b-a)/(N-1) *)
PathPt(a, b, N, i) == RV([k \in 1 .. 6 |-> a[k] * (N - 1) + i * (b[k] - a[k])], N - 1)
PathLaws == st = 1 => \A N \in {2, 3, 7} :
               LET a == X0 \o <<0, 1, -2>>  b == Points[1] \o <<3, 0, 1>> IN
               /\ PathPt(a, b, N, 0) = RV(a, 1) /\ PathPt(a, b, N, N - 1) = RV(b, 1)
               /\ \A i \in 1 .. N - 2 :     \* even spacing: 2 p_i = p_{i-1} + p_{i+1}
                    LET p == PathPt(a, b, N, i)  q == PathPt(a, b, N, i - 1)  r == PathPt(a, b, N, i + 1) IN
                    ScaleV(p.v, 2 * q.den * r.den) = AddV(ScaleV(q.v, p.den * r.den), ScaleV(r.v, p.den * q.den))

Dump == st = 1 => PrintT(ToJson([F |-> F0, x |-> X0, mirror |-> Mirror(F0, X0, 1), localz |-> Local(F0, X0, 1),
                                 plane |-> [j \in DOMAIN Points |-> Plane(X0, Points[j], Points[1])]]))
=============================================================================
