--------------------------- MODULE SegGeom ---------------------------
(* Segment-versus-closed-box geometry on integer coordinates (no variables):
   Hits (the definition, bounded existential, exact when K = lcm of all possible |b-a|),
   SAT (transcription of the code's separating-axis test) and HitsSlab (exact slab method
   over rationals by cross-multiplication, valid for any integer coordinates).            *)
EXTENDS Integers, Sequences, FiniteSets
CONSTANT K
Abs(x) == IF x < 0 THEN -x ELSE x

Hits(a, b, box) ==
    \E k \in 0 .. K : \A ax \in 1 .. 3 :
        /\ K * box[1][ax] <= K * a[ax] + k * (b[ax] - a[ax])
        /\ K * a[ax] + k * (b[ax] - a[ax]) <= K * box[2][ax]

SAT(a, b, box) ==
    LET lo == box[1]  hi == box[2]
        M == [i \in 1 .. 3 |-> 2 * a[i] + 2 * b[i] - 2 * (lo[i] + hi[i])]   \* 4 * segment midpoint - box centre
        L == [i \in 1 .. 3 |-> 2 * (a[i] - b[i])]                            \* 4 * half segment
        X == [i \in 1 .. 3 |-> 2 * Abs(hi[i] - lo[i])]                       \* 4 * half extents
    IN  ~ \/ Abs(M[1]) > X[1] + Abs(L[1])
          \/ Abs(M[2]) > X[2] + Abs(L[2])
          \/ Abs(M[3]) > X[3] + Abs(L[3])
          \/ Abs(M[2] * L[3] - M[3] * L[2]) > X[2] * Abs(L[3]) + X[3] * Abs(L[2])
          \/ Abs(M[1] * L[3] - M[3] * L[1]) > X[1] * Abs(L[3]) + X[3] * Abs(L[1])
          \/ Abs(M[1] * L[2] - M[2] * L[1]) > X[1] * Abs(L[2]) + X[2] * Abs(L[1])

(* An independent exact decision procedure usable beyond the small lattice (coordinates up to 2*10^4):
   the slab method over rationals n/d (d > 0) compared by cross-multiplication.  TLC checks it
   against the definition on the lattice (SlabIsExact) and then uses it as the oracle for the
   random 3-decimal cases of SegBoxTrace.                                                    *)
Frac(n, d) == IF d > 0 THEN <<n, d>> ELSE <<-n, -d>>
Leq(p, q) == p[1] * q[2] <= q[1] * p[2]
Lowers(a, b, box) == {<<0, 1>>}
    \cup {Frac(box[1][i] - a[i], b[i] - a[i]) : i \in {j \in 1 .. 3 : b[j] > a[j]}}
    \cup {Frac(box[2][i] - a[i], b[i] - a[i]) : i \in {j \in 1 .. 3 : b[j] < a[j]}}
Uppers(a, b, box) == {<<1, 1>>}
    \cup {Frac(box[2][i] - a[i], b[i] - a[i]) : i \in {j \in 1 .. 3 : b[j] > a[j]}}
    \cup {Frac(box[1][i] - a[i], b[i] - a[i]) : i \in {j \in 1 .. 3 : b[j] < a[j]}}
HitsSlab(a, b, box) ==
    /\ \A i \in 1 .. 3 : b[i] = a[i] => (box[1][i] <= a[i] /\ a[i] <= box[2][i])
    /\ \A l \in Lowers(a, b, box), u \in Uppers(a, b, box) : Leq(l, u)
=============================================================================
