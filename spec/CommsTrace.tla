--------------------------- MODULE CommsTrace ---------------------------
(* Trace validation for C19: executions recorded from the real Comms hub (one event per public
   call, full projected state after the call) are checked to be behaviours of CommsHub.
   Many traces per file; each trace is explored from its own initial state and announces
   acceptance by printing its id.                                                          *)
EXTENDS CommsHub, IOUtils

Traces == JsonDeserialize(IOEnv.TRACE_FILE)     \* sequence of [id, inbox, ev]
VARIABLES tid, l
tvars == <<vars, tid, l>>

TraceInit == /\ tid \in DOMAIN Traces
             /\ l = 1
             /\ fwd = [e \in E |-> <<>>] /\ fwdKey = {}
             /\ sinkTab = [e \in E |-> <<>>] /\ srcTab = [e \in E |-> <<>>]
             /\ inbox = [e \in E |-> Traces[tid].inbox[e]]
             /\ open = [e \in E |-> TRUE]
             /\ sent = [e \in E |-> <<>>]
             /\ sinkLog = [s \in Sinks |-> <<>>]
             /\ hist = <<>>

Ev == Traces[tid].ev
Matches(ev) == /\ Last.ret = ev.ret
               /\ \A e \in E : sent'[e] = ev.post.sent[e] /\ Len(inbox'[e]) = ev.post.inboxLen[e]
               /\ \A s \in Sinks : sinkLog'[s] = ev.post.sinkLog[s]

TraceNext ==
    /\ l <= Len(Ev) /\ l' = l + 1 /\ tid' = tid
    /\ LET ev == Ev[l] IN
       /\ \/ ev.op = "setForwardData" /\ SetForward(ev.a, ev.b)
          \/ ev.op = "deleteForwardingRule" /\ DeleteForward(ev.a, ev.b)
          \/ ev.op = "setDataSink" /\ SetSink(ev.a, ev.b)
          \/ ev.op = "setDataSource" /\ SetSource(ev.a, ev.b)
          \/ ev.op = "getData" /\ GetData(ev.a)
          \/ ev.op = "sendData" /\ SendData(ev.a, ev.b)
          \/ ev.op = "spin" /\ Spin
          \/ ev.op = "openCom" /\ ev.a \in E /\ OpenCom(ev.a)
          \/ ev.op = "closeCom" /\ ev.a \in E /\ CloseCom(ev.a)
       /\ Matches(ev)

TraceSpec == TraceInit /\ [][TraceNext]_tvars
EP1 == <<"a">>
EP2 == <<"a", "b">>
EP3 == <<"a", "b", "c">>
EP4 == <<"a", "b", "c", "d">>
TraceOps == {"setForwardData", "deleteForwardingRule", "setDataSink", "setDataSource", "getData", "sendData", "spin", "openCom", "closeCom"}
Accept == (l = Len(Ev) + 1) => PrintT(<<"ACCEPT", Traces[tid].id>>)
Progress == PrintT(<<"AT", Traces[tid].id, l>>)
=============================================================================
