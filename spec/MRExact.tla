--------------------------- MODULE MRExact ---------------------------
(* C02 / C06 / C08 (exact part): an executable exact specification of the algebraic part of Modern
   Robotics on an integer lattice of serial chains.

   A chain has n joints; joint i is revolute about a coordinate axis through an integer point or
   prismatic along a coordinate axis, so its space screw S_i is an integer 6-vector (omega, v).
   Joint values are quarter turns (revolute) or integer displacements (prismatic): every
   exponential e^{[S]q} is then an INTEGER rigid motion.  Link frames M_{i-1,i} are integer rigid
   motions, spatial inertias G_i integer diagonal matrices, velocities / accelerations / gravity /
   tip wrench integer vectors.  On this lattice forward kinematics, both Jacobians and the
   forward-backward Newton-Euler recursion are integer computations, which TLC performs.

   The recursion is a STATE MACHINE (one Forward(i) and one Backward(i) step per link carrying the
   link twists, accelerations and wrenches in variables) - the faithful shape of the algorithm.
   For every case the machine runs n + 4 inverse-dynamics jobs
        1 full     2 velocity-product (ddq=0,g=0,F=0)   3 gravity (dq=0,ddq=0,F=0)
        4 tip force (dq=0,ddq=0,g=0)    4+j mass-matrix column j (dq=0,g=0,F=0,ddq=e_j)
   and the laws are invariants of the final state:
        Decomposition  tau = M ddq + c + g + J^T F          MassSymmetric   M = M^T
        MassPositive   x^T M x > 0 on integer probes        BodySpace       J_b = Ad(T^-1) J_s
        MassFromJacobians  M = sum_i J_i^T G_i J_i  (link-frame body Jacobians)
   The exact values are exported for the port AND the reference library (three-way agreement). *)
EXTENDS QSE3, TLC, Json

CONSTANTS Chains,     \* sequence of chains [n, kind, S, M, G]
          Cases       \* sequence of [c, q, dq, ddq, g, F]  (c = index into Chains)

(* ---------------- integer rigid motions [R, p] ---------------- *)
T4(R, p) == [R |-> R, p |-> p]
I3 == IdN(3)
TI == T4(I3, <<0, 0, 0>>)
TMul(A, B) == T4(MatMulN(A.R, B.R), AddV(MatVec3(A.R, B.p), A.p))
TInv(A) == T4(TransposeN(A.R), ScaleV(MatVec3(TransposeN(A.R), A.p), -1))
Ad6(T) == LET PR == MatMulN(Hat3(T.p), T.R) IN
    [i \in 1 .. 6 |-> [j \in 1 .. 6 |->
        IF i <= 3 /\ j <= 3 THEN T.R[i][j] ELSE IF i <= 3 THEN 0 ELSE IF j <= 3 THEN PR[i - 3][j] ELSE T.R[i - 3][j - 3]]]
W(S) == <<S[1], S[2], S[3]>>
U(S) == <<S[4], S[5], S[6]>>
SC(k) == LET kk == k % 4 IN CASE kk = 0 -> <<0, 1>> [] kk = 1 -> <<1, 0>> [] kk = 2 -> <<0, -1>> [] kk = 3 -> <<-1, 0>>
(* e^{[S] q}: revolute (|omega| = 1, zero pitch) by q quarter turns, prismatic (omega = 0) by displacement q *)
ExpS(S, q) ==
    IF W(S) = <<0, 0, 0>> THEN T4(I3, ScaleV(U(S), q))
    ELSE LET sc == SC(q)  s == sc[1]  c == sc[2]  Wh == Hat3(W(S))  W2 == MatMulN(Wh, Wh)
             R == [i \in 1 .. 3 |-> [j \in 1 .. 3 |-> I3[i][j] + s * Wh[i][j] + (1 - c) * W2[i][j]]]
         IN T4(R, AddV(ScaleV(U(S), s), ScaleV(Cross(W(S), U(S)), 1 - c)))
Neg(S) == ScaleV(S, -1)

(* ---------------- kinematics ---------------- *)
RECURSIVE ProdM(_, _)
ProdM(Ms, k) == IF k = 0 THEN TI ELSE TMul(ProdM(Ms, k - 1), Ms[k])          \* M_{0,1} ... M_{k-1,k}
Home(ch) == ProdM(ch.M, ch.n + 1)
RECURSIVE ProdE(_, _, _)
ProdE(ch, q, k) == IF k = 0 THEN TI ELSE TMul(ProdE(ch, q, k - 1), ExpS(ch.S[k], q[k]))
FKSpace(ch, q) == TMul(ProdE(ch, q, ch.n), Home(ch))
JSpace(ch, q) == [i \in 1 .. ch.n |-> MatVecN(Ad6(ProdE(ch, q, i - 1)), ch.S[i])]      \* columns
BList(ch) == [i \in 1 .. ch.n |-> MatVecN(Ad6(TInv(Home(ch))), ch.S[i])]
RECURSIVE ProdB(_, _, _, _)
ProdB(B, q, n, k) == IF k > n THEN TI ELSE TMul(ProdB(B, q, n, k + 1), ExpS(Neg(B[k]), q[k]))   \* e^{-[B_n]q_n} ... e^{-[B_k]q_k}
JBody(ch, q) == LET B == BList(ch) IN [i \in 1 .. ch.n |-> MatVecN(Ad6(ProdB(B, q, ch.n, i + 1)), B[i])]
FKBody(ch, q) == LET B == BList(ch)
                     RECURSIVE P(_)
                     P(k) == IF k = 0 THEN Home(ch) ELSE TMul(P(k - 1), ExpS(B[k], q[k]))
                 IN P(ch.n)

(* ---------------- Newton-Euler as a state machine ---------------- *)
VARIABLES cs, job, pc, i, V, Vd, Fw, tau, res
vars == <<cs, job, pc, i, V, Vd, Fw, tau, res>>
Z6 == <<0, 0, 0, 0, 0, 0>>
Ch == Chains[Cases[cs].c]
N == Ch.n
Unit(n, j) == [k \in 1 .. n |-> IF k = j THEN 1 ELSE 0]
ZeroN(n) == [k \in 1 .. n |-> 0]
(* inputs of the current job *)
JobIn == LET K == Cases[cs] IN
    CASE job = 1 -> [dq |-> K.dq, ddq |-> K.ddq, g |-> K.g, F |-> K.F]
      [] job = 2 -> [dq |-> K.dq, ddq |-> ZeroN(N), g |-> <<0, 0, 0>>, F |-> Z6]
      [] job = 3 -> [dq |-> ZeroN(N), ddq |-> ZeroN(N), g |-> K.g, F |-> Z6]
      [] job = 4 -> [dq |-> ZeroN(N), ddq |-> ZeroN(N), g |-> <<0, 0, 0>>, F |-> K.F]
      [] OTHER -> [dq |-> ZeroN(N), ddq |-> Unit(N, job - 4), g |-> <<0, 0, 0>>, F |-> Z6]
A(k) == MatVecN(Ad6(TInv(ProdM(Ch.M, k))), Ch.S[k])                           \* screw axis of joint k in link frame k
AdT(k) == IF k = N + 1 THEN Ad6(TInv(Ch.M[N + 1]))
          ELSE Ad6(TMul(ExpS(Neg(A(k)), Cases[cs].q[k]), TInv(Ch.M[k])))       \* Ad of T_{k,k-1}
GV(G, v) == [k \in 1 .. 6 |-> G[k] * v[k]]
AddN(a, b) == [k \in DOMAIN a |-> a[k] + b[k]]

Init == /\ cs = 0 /\ job = 0 /\ pc = "seed" /\ i = 0 /\ V = <<>> /\ Vd = <<>> /\ Fw = Z6 /\ tau = <<>> /\ res = <<>>
Pick == /\ pc = "seed" /\ cs' \in DOMAIN Cases /\ job' = 1 /\ pc' = "start"
        /\ UNCHANGED <<i, V, Vd, Fw, tau, res>>
Start == /\ pc = "start"
         /\ V' = <<Z6>>                                                      \* V_0 = 0
         /\ Vd' = << <<0, 0, 0, -JobIn.g[1], -JobIn.g[2], -JobIn.g[3]>> >>   \* base acceleration = -gravity
         /\ i' = 1 /\ pc' = "forward" /\ tau' = ZeroN(N) /\ Fw' = JobIn.F
         /\ UNCHANGED <<cs, job, res>>
Forward == /\ pc = "forward" /\ i <= N
           /\ LET Ai == A(i)  X == AdT(i)
                  Vi == AddN(MatVecN(X, V[i]), ScaleV(Ai, JobIn.dq[i]))
                  Vdi == AddN(AddN(MatVecN(X, Vd[i]), ScaleV(Ai, JobIn.ddq[i])), ScaleV(MatVecN(LieAd(Vi), Ai), JobIn.dq[i]))
              IN V' = Append(V, Vi) /\ Vd' = Append(Vd, Vdi)
           /\ i' = i + 1 /\ pc' = IF i = N THEN "backward" ELSE "forward"
           /\ UNCHANGED <<cs, job, Fw, tau, res>>
Backward == /\ pc = "backward" /\ i >= 2
            /\ LET k == i - 1                                                \* link index N .. 1
                   Fk == AddN(AddN(MatVecN(TransposeN(AdT(k + 1)), Fw), GV(Ch.G[k], Vd[k + 1])),
                              ScaleV(MatVecN(TransposeN(LieAd(V[k + 1])), GV(Ch.G[k], V[k + 1])), -1))
               IN /\ Fw' = Fk /\ tau' = [tau EXCEPT ![k] = DotN(Fk, A(k))]
            /\ i' = i - 1 /\ pc' = IF i = 2 THEN "store" ELSE "backward"
            /\ UNCHANGED <<cs, job, V, Vd, res>>
Store == /\ pc = "store" /\ res' = Append(res, tau)
         /\ IF job = N + 4 THEN pc' = "done" /\ job' = job ELSE pc' = "start" /\ job' = job + 1
         /\ UNCHANGED <<cs, i, V, Vd, Fw, tau>>
Next == Pick \/ Start \/ Forward \/ Backward \/ Store
Spec == Init /\ [][Next]_vars

(* ---------------- laws on the finished case ---------------- *)
Done == pc = "done"
Mass == [r \in 1 .. N |-> [c \in 1 .. N |-> res[4 + c][r]]]          \* column c = job 4+c
JT(J, F) == [k \in 1 .. N |-> DotN(J[k], F)]
Decomposition == Done => LET K == Cases[cs] IN
    \* tip-force job: tau = J_b^T F  (F is expressed in the tool frame)
    /\ res[1] = AddN(AddN(AddN(MatVecN(Mass, K.ddq), res[2]), res[3]), res[4])
    /\ res[4] = JT(JBody(Ch, K.q), K.F)
MassSymmetric == Done => \A r, c \in 1 .. N : Mass[r][c] = Mass[c][r]
Probes == {Unit(N, j) : j \in 1 .. N} \cup {[k \in 1 .. N |-> 1], [k \in 1 .. N |-> IF k % 2 = 0 THEN -2 ELSE 1]}
MassPositive == Done => \A x \in Probes : DotN(x, MatVecN(Mass, x)) > 0
BodySpace == Done => LET K == Cases[cs]  T == FKSpace(Ch, K.q)  Js == JSpace(Ch, K.q)  Jb == JBody(Ch, K.q) IN
    /\ \A k \in 1 .. N : Jb[k] = MatVecN(Ad6(TInv(T)), Js[k])
    /\ FKBody(Ch, K.q) = T
(* link-frame Jacobians: J_k column j (j <= k) = Ad(T_{k,j}) A_j ; M = sum_k J_k^T G_k J_k *)
RECURSIVE Tkj(_, _)
Tkj(k, j) == IF j = k THEN TI ELSE TMul(TMul(ExpS(Neg(A(k)), Cases[cs].q[k]), TInv(Ch.M[k])), Tkj(k - 1, j))
LinkJ(k) == [j \in 1 .. N |-> IF j <= k THEN MatVecN(Ad6(Tkj(k, j)), A(j)) ELSE Z6]
MassFromJacobians == Done => \A r, c \in 1 .. N :
    Mass[r][c] = LET RECURSIVE Sum(_)
                     Sum(k) == IF k = 0 THEN 0 ELSE DotN(LinkJ(k)[r], GV(Ch.G[k], LinkJ(k)[c])) + Sum(k - 1)
                 IN Sum(N)

Dump == Done => PrintT(ToJson([c |-> Cases[cs].c, case |-> Cases[cs], fk |-> FKSpace(Ch, Cases[cs].q),
                               js |-> JSpace(Ch, Cases[cs].q), jb |-> JBody(Ch, Cases[cs].q), blist |-> BList(Ch),
                               home |-> Home(Ch), tau |-> res[1], cvec |-> res[2], gvec |-> res[3], ftip |-> res[4],
                               mass |-> Mass]))
=============================================================================
