--------------------------- MODULE TmObjectMC ---------------------------
EXTENDS TmObject
AllForms == {"list6", "arr6", "arr6x1", "pair", "list3", "arr3", "rpy6", "rpy3", "list7", "arr7", "mat44", "tmcopy", "arr1tm"}
CoreForms == {"list6", "mat44", "list7", "rpy6", "tmcopy"}
AllOps == {"new", "sTM", "sTAA", "set", "setitem", "setslice", "setQuat", "angleMod", "copy", "inv", "matmul", "addsub",
           "muldiv", "abs", "floordiv", "l2g", "g2l"}
MiniForms == {"list6", "mat44"}
GroupOps == {"new", "inv", "matmul", "floordiv", "l2g", "g2l", "copy"}
WrapOps == {"new", "sTAA", "set", "setitem", "setslice", "angleMod", "addsub", "muldiv", "copy"}
Both == {1, 2}
One == {1}
NoOps == {}
CtorOps == {"new", "sTAA", "setitem"}
=============================================================================
