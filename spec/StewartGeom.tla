--------------------------- MODULE StewartGeom ---------------------------
(* C09 / C11 (exact part): the geometry of a Stewart platform in exact arithmetic (QSE3).

   A platform has plate-fixed joint tables b_i (bottom) and t_i (top), i = 1..6, integer
   coordinates over a common denominator GD.  With bottom plate pose B and top plate pose T
       Len2_i(B,T) = | T t_i - B b_i |^2          (a rational number)
   Lemmas TLC checks on a lattice geometry x pose palette:
     Invariance   Len2(G o B, G o T) = Len2(B, T) for every rigid motion G (only the relative pose matters)
     RelOnly      Len2(B, T) = Len2(Id, B^-1 o T)
     Respin       rotating both tables about the plate normals by R_z and un-rotating the poses
                  leaves every leg where it was (a re-spin re-labels plate coordinates, not geometry)
     RowIdentity  (C11) with d_i = T t_i - B b_i in space:  d_i . (v + w x (T t_i)) is the rate of Len2_i/2
                  under the spatial twist (w, v) of the top plate - stated as the algebraic identity
                  d/ds |T(s) t - B b|^2 / 2 at s = 0 for T(s) = exp(s [V]) T, which for the affine action
                  is exactly d . (w x p + v), p = T t_i.   The row of the inverse Jacobian scaled by the
                  leg length is therefore [ p x d , d ] = [ (B b) x d , d ]  (p x d = (Bb) x d since p - Bb = d).
   Exact squared lengths and scaled rows are exported for comparison with the real SP class.    *)
EXTENDS QSE3, TLC, Json

CONSTANTS BJ, TJ,      \* sequences of six integer 3-vectors (numerators)
          GD,          \* common denominator of the joint tables
          Poses,       \* sequence of QSE3 transforms (palette)
          Spins        \* set of unit-norm-free quaternions about z used for re-spins, e.g. <<2,0,0,1>>

VARIABLES st, bi, ti
vars == <<st, bi, ti>>
Init == st = 0 /\ bi = 1 /\ ti = 1
Next == st = 0 /\ st' = 1 /\ bi' \in DOMAIN Poses /\ ti' \in DOMAIN Poses
Spec == Init /\ [][Next]_vars

(* point T*x for x = num/GD : rational vector [v, den] *)
Pt(T, x) == LET a == Act(T, x, GD) IN NormRV(a.v, a.den)
(* difference of two rational vectors *)
RSub(a, b) == NormRV(SubV(ScaleV(a.v, b.den), ScaleV(b.v, a.den)), a.den * b.den)
Rat(n, d) == LET g0 == Gcd(n, d)  g == IF g0 = 0 THEN 1 ELSE g0  sg == IF d < 0 THEN -1 ELSE 1
             IN [n |-> n \div (sg * g), d |-> d \div (sg * g)]                      \* lowest terms, d > 0
RNorm2(a) == Rat(Dot3(a.v, a.v), a.den * a.den)
REq(x, y) == Rat(x.n, x.d) = Rat(y.n, y.d)
Leg(B, T, bj, tj, i) == RSub(Pt(T, tj[i]), Pt(B, bj[i]))
Len2(B, T, bj, tj, i) == RNorm2(Leg(B, T, bj, tj, i))

B0 == Poses[bi]
T0 == Poses[ti]
Invariance == st = 1 => \A g \in DOMAIN Poses, i \in 1 .. 6 :
    REq(Len2(NormT(Compose(Poses[g], B0)), NormT(Compose(Poses[g], T0)), BJ, TJ, i), Len2(B0, T0, BJ, TJ, i))
RelOnly == st = 1 => \A i \in 1 .. 6 :
    REq(Len2(TId, NormT(Compose(Inv(B0), T0)), BJ, TJ, i), Len2(B0, T0, BJ, TJ, i))
(* re-spin by the z rotation q: new tables q*b_i, q*t_i (scaled by |q|^2), poses followed by q^-1 *)
SpinTab(tab, q) == [i \in 1 .. 6 |-> MatVec3(RotNum(q), tab[i])]
Respin == st = 1 => \A q \in Spins, i \in 1 .. 6 :
    LET Rq == Tf(q, <<0, 0, 0>>, 1)
        n == QNorm2(q)
        pt(T, x) == LET a == Act(T, x, GD * n) IN NormRV(a.v, a.den)
        l1 == RNorm2(RSub(pt(NormT(Compose(T0, Inv(Rq))), SpinTab(TJ, q)[i]),
                          pt(NormT(Compose(B0, Inv(Rq))), SpinTab(BJ, q)[i])))
    IN REq(l1, Len2(B0, T0, BJ, TJ, i))
(* C11: the scaled inverse-Jacobian row and the rate identity for integer twists *)
Twists == {<<0, 0, 1, 0, 0, 0>>, <<1, -2, 0, 3, 0, -1>>, <<0, 0, 0, 1, 2, 3>>, <<2, 1, -1, 0, -2, 1>>}
RowIdentity == st = 1 => \A i \in 1 .. 6, V \in Twists :
    LET p == Pt(T0, TJ[i])   q == Pt(B0, BJ[i])   d == RSub(p, q)
        w == <<V[1], V[2], V[3]>>   v == <<V[4], V[5], V[6]>>
        \* velocity of the point p under the spatial twist: w x p + v   (over p.den)
        vel == NormRV(AddV(Cross(w, p.v), ScaleV(v, p.den)), p.den)
        lhs == Rat(Dot3(d.v, vel.v), d.den * vel.den)                               \* d . (w x p + v)
        \* row [ q x d , d ] . (w, v)   with q x d = p x d
        qxd == NormRV(Cross(q.v, d.v), q.den * d.den)
        rhs == Rat(Dot3(qxd.v, w) * d.den + Dot3(d.v, v) * qxd.den, qxd.den * d.den)
    IN REq(lhs, rhs)

Dump == st = 1 => PrintT(ToJson([B |-> B0, T |-> T0,
                                 len2 |-> [i \in 1 .. 6 |-> Len2(B0, T0, BJ, TJ, i)],
                                 rows |-> [i \in 1 .. 6 |->
                                     LET q == Pt(B0, BJ[i])  d == Leg(B0, T0, BJ, TJ, i)
                                     IN [m |-> Cross(q.v, d.v), md |-> q.den * d.den, d |-> d.v, dd |-> d.den]]]))
=============================================================================
