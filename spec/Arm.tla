--------------------------- MODULE Arm ---------------------------
(* C05 / C06 / C07: the abstract machine of a serial arm's kinematic state.

   The numeric content (product of exponentials, Jacobians) is in the harness (RefEval); this
   module is the BOOKKEEPING the property quantifies over: which base the arm stands on, which
   tool frame is in force and how it was anchored, whether the stored joint vector is known, and
   therefore WHICH OBLIGATIONS are determined after every public call of any history.

     base   index into the palette of base poses (0 = the construction base)
     tool   <<"orig">>  or  <<"custom", n, th, b>> : setArbitraryHome made FK(th) = N_n while the arm
            stood on base b (the tool is rigidly attached: after a move to base b' that keeps it,
            FK(th) = B_b' B_b^-1 N_n)
     joint  <<"known", th>> : the stored joint vector is th (a palette vector <<"pal",k>>, zero,
            or the vector returned by the IK call at history position i, <<"ik",i>>)
            <<"free">>      : not determined by the specification - only COHERENCE is owed
                              (reported tool pose = pose of the stored joint vector)

   Deliberate non-determinism (the property does not fix it): a base move may keep or revert a
   custom tool; an IK call succeeds or fails as the implementation decides (C07 constrains the
   outcome); a failed solve leaves the joint vector free but coherent.                        *)
EXTENDS Integers, Sequences, FiniteSets, TLC, Json

CONSTANTS Bases,      \* palette indices of base poses other than the construction base
          Thetas,     \* palette indices of joint vectors (index 3 = beyond the limits)
          Tools,      \* palette indices of tool poses
          Goals,      \* IK goal classes
          Ops, MaxDepth

VARIABLES base, tool, joint, hist
vars == <<base, tool, joint, hist>>
Orig == <<"orig">>
Known(th) == <<"known", th>>
Free == <<"free">>
Pal(k) == <<"pal", k>>

Init == base = 0 /\ tool = Orig /\ joint = Known(<<"zero">>) /\ hist = <<>>     \* the constructor ends with FK(0)
Can(op) == op \in Ops /\ Len(hist) < MaxDepth
Log(rec) == hist' = Append(hist, rec @@ [st |-> [b |-> base', t |-> tool', j |-> joint']])   \* op + state after it

FK == Can("FK") /\ \E k \in Thetas :
        /\ joint' = Known(Pal(k)) /\ UNCHANGED <<base, tool>> /\ Log([op |-> "FK", k |-> k])
Query == Can("query") /\ UNCHANGED <<base, tool, joint>> /\ Log([op |-> "query"])   \* FK(None), getters, default-argument Jacobians
IK == Can("IK") /\ \E g \in Goals, s \in {"near", "far", "current"}, path \in {"constrained", "free", "IKFree"}, ok \in BOOLEAN :
        /\ (s = "current" => joint[1] = "known")
        /\ joint' = IF ok THEN Known(<<"ik", Len(hist) + 1>>) ELSE Free
        /\ UNCHANGED <<base, tool>>
        /\ Log([op |-> "IK", g |-> g, s |-> s, path |-> path, ok |-> ok])
Move == Can("move") /\ \E b \in Bases \cup {0}, stationary \in BOOLEAN, keep \in BOOLEAN :
        /\ base' = b
        /\ tool' = IF keep THEN tool ELSE Orig
        /\ joint' = IF stationary THEN Free ELSE joint          \* stationary: re-solves IK for the old tool pose
        /\ Log([op |-> "move", b |-> b, stationary |-> stationary, keep |-> keep])
SetHome == Can("setArbitraryHome") /\ \E n \in Tools, th \in Thetas \cup {0} :
        /\ (th = 0 => joint[1] = "known")                        \* theta = None: anchored at the stored joint vector
        /\ tool' = <<"custom", n, IF th = 0 THEN joint[2] ELSE Pal(th), base>>
        /\ joint' = IF th = 0 THEN joint ELSE Known(Pal(th))     \* it evaluates FK(theta)
        /\ UNCHANGED base
        /\ Log([op |-> "setArbitraryHome", n |-> n, th |-> th])
Restore == Can("restoreOriginalEE") /\ tool' = Orig /\ UNCHANGED <<base, joint>> /\ Log([op |-> "restoreOriginalEE"])
RandomPos == Can("randomPos") /\ joint' = Free /\ UNCHANGED <<base, tool>> /\ Log([op |-> "randomPos"])

(* ---------------- C07: what an IK call owes, as a predicate over the projected observation e ----------------
   e.ok      the reported success flag
   e.ang     rotation angle of inv(FK(returned vector)) * goal, in units of rot_tol / 1000
   e.pos     position error in units of pos_tol / 1000 - the SMALLEST of |dp|, |v_body|, |v_space|
             (the weakest reading of "within the position tolerance")
   e.inlim   returned vector inside the joint limits        e.stateis  the arm's state is that solution
   e.coh     reported tool pose = pose of the stored joint vector
   e.g       goal class: "reach" / "boundary" / "beyond"     e.s  start class: "near" / "far" / "random"
   e.wellcond  solution >= 0.15 rad inside the limits and smallest Jacobian singular value >= 0.05    *)
IKPost(e) ==
    /\ e.ok = 1 => /\ e.ang <= 1000 /\ e.pos <= 1000               \* never claims a pose it has not reached
                   /\ (e.path = "constrained" => e.inlim = 1)      \* limit-respecting solver stays inside the limits
                   /\ e.stateis = 1                                \* and the arm's state is that solution
                   /\ e.g # "beyond"                               \* an unreachable goal is never reported reached
    /\ e.ok = 0 => e.coh = 1                                       \* failure leaves a coherent state
    /\ (e.s = "near" /\ e.wellcond = 1 /\ e.g = "reach" /\ e.path # "IKFree") => e.ok = 1   \* local convergence

Next == FK \/ Query \/ IK \/ Move \/ SetHome \/ Restore \/ RandomPos
Spec == Init /\ [][Next]_vars

(* ---------------- bookkeeping properties checked on the model ---------------- *)
TypeOK == /\ base \in Bases \cup {0}
          /\ tool = Orig \/ (tool[1] = "custom" /\ tool[2] \in Tools /\ tool[4] \in Bases \cup {0})
          /\ joint = Free \/ joint[1] = "known"
(* the anchor of a custom tool is always a determined joint vector: the tool pose is computable *)
ToolDetermined == tool # Orig => tool[3][1] \in {"pal", "zero", "ik"}
RestoreGivesOrig == [][(hist' # hist /\ hist'[Len(hist')].op = "restoreOriginalEE") => tool' = Orig]_vars
MoveKeepsJoint == [][(hist' # hist /\ hist'[Len(hist')].op = "move" /\ ~hist'[Len(hist')].stationary) => joint' = joint]_vars
FKMakesKnown == [][(hist' # hist /\ hist'[Len(hist')].op = "FK") => joint'[1] = "known"]_vars
QueriesArePure == [][(hist' # hist /\ hist'[Len(hist')].op = "query") => <<base', tool', joint'>> = <<base, tool, joint>>]_vars
(* obligations owed in the current state (exported with every behaviour; evaluated by the harness) *)
Obligations == {"O1_poe", "O3_reported_state_coherent", "O4_base", "O6_clamp", "J_jacobians", "S_statics"}
               \cup (IF joint[1] = "known" THEN {"O2_tool", "O3_state_is_known_vector", "O5_defaults"} ELSE {})

View == <<base, tool, joint, Len(hist)>>
Dump == (Len(hist) = MaxDepth) => PrintT(ToJson([h |-> hist, base |-> base, tool |-> tool, joint |-> joint, obl |-> Obligations]))
=============================================================================
