--------------------------- MODULE StewartTrace ---------------------------
(* Trace validation for C10.  One event per PUBLIC top-level call of a real Stewart platform:
     name, kind ("mutator" / "query"), raised, verdict ("valid" / "invalid" / "none"),
     coh  = <<joints = plates * tables, lengths = joint distances, relative = inv(bottom) * top>>   (0/1, at 1e-9)
     con  = truth of <<leg limits, top above bottom, joint deflection, plate tilt>> RECOMPUTED by the harness
            from public getters for the state the call returned in
     sw   = enabled constraints, pure = both plate poses unchanged (queries),
     calls = the nested validate / stage calls the operation made, in order of entry:
             [d, fn, k, dn, lim, ret]   d = nesting depth of validate frames, fn = "validate" | "stage",
             k = stage index (stage records), dn = donothing, lim = validation_limit (validate records)
   Every event must satisfy what Stewart.tla's protocol guarantees:
     Sound, Coherent, QueryPure, ReturnsNormally, and the protocol shape (Bounded, NoNestedCorrection,
     re-validation after the corrective action of stage k covers stages 1..k).                       *)
EXTENDS Stewart, Json, IOUtils

Traces == JsonDeserialize(IOEnv.TRACE_FILE)
VARIABLES tid, l
tvars == <<vars, tid, l>>
Ev == Traces[tid].ev
SetOf(s) == {s[i] : i \in DOMAIN s}

ReturnsNormally(e) == e.raised = 0
Coherent(e) == \A i \in DOMAIN e.coh : e.coh[i] = 1
SoundE(e) == e.verdict = "valid" => \A k \in SetOf(e.sw) : e.con[k] = 1
QueryPure(e) == e.kind = "query" => e.pure = 1
(* protocol shape: positions of the call log *)
EnclosingStage(cs, i) ==    \* index of the latest stage record of depth cs[i].d - 1 entered before i (0 if none)
    LET S == {j \in 1 .. i - 1 : cs[j].fn = "stage" /\ cs[j].d = cs[i].d - 1} IN
    IF S = {} THEN 0 ELSE CHOOSE j \in S : \A m \in S : m <= j
ProtocolShape(e) == LET cs == e.calls IN
    \A i \in DOMAIN cs :
        /\ cs[i].d <= 2                                                     \* Bounded
        /\ (cs[i].d = 2 => cs[i].dn = 1)                                    \* NoNestedCorrection
        /\ (cs[i].fn = "validate" /\ cs[i].d = 2) =>
              LET j == EnclosingStage(cs, i) IN j > 0 /\ cs[i].lim >= cs[j].k   \* re-validation covers 1..k

EventOK(e) == ReturnsNormally(e) /\ Coherent(e) /\ SoundE(e) /\ QueryPure(e) /\ ProtocolShape(e)

TInit == /\ tid \in DOMAIN Traces /\ l = 1
         /\ c = [k \in K |-> TRUE] /\ far = FALSE /\ sw = {} /\ stack = <<>> /\ ret = "none" /\ phase = "idle" /\ ops = 0
TNext == /\ l <= Len(Ev) /\ l' = l + 1 /\ tid' = tid
         /\ EventOK(Ev[l])
         /\ UNCHANGED vars
TSpec == TInit /\ [][TNext]_tvars
Accept == (l = Len(Ev) + 1) => PrintT(<<"ACCEPT", Traces[tid].id>>)
Progress == PrintT(<<"AT", Traces[tid].id, l>>)
=============================================================================
