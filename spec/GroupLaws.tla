--------------------------- MODULE GroupLaws ---------------------------
(* C01 / C04 (exact part): the group laws of rigid motions checked by TLC in exact arithmetic on
   a palette, and the exact values exported for comparison with the code.

   The case generator is a tree  seed -> A -> (A,B) -> (A,B,C)  so that the work spreads over the
   TLC workers.  Invariants evaluate the laws at each level; Dump* print the exact tables:
     level 1: a transform, its inverse, rotation matrix, adjoint, logarithm branch
     level 2: a pair and its composition                                                      *)
EXTENDS QSE3, TLC, Json

CONSTANTS Quats,      \* set of quaternions (rotations) of the palette
          Trans,      \* set of translations [p, d]
          Twists,     \* set of integer 6-vectors
          MaxLevel,   \* 1, 2 or 3
          Quats3      \* smaller rotation set used at level 3 (triples)

VARIABLES level, A, B, C
vars == <<level, A, B, C>>
Pal == {Tf(q, t[1], t[2]) : q \in Quats, t \in Trans}
Pal3 == {Tf(q, t[1], t[2]) : q \in Quats3, t \in Trans}

Init == level = 0 /\ A = TId /\ B = TId /\ C = TId
Next == \/ level = 0 /\ MaxLevel >= 1 /\ level' = 1 /\ A' \in Pal /\ UNCHANGED <<B, C>>
        \/ level = 1 /\ MaxLevel >= 2 /\ level' = 2 /\ B' \in Pal /\ UNCHANGED <<A, C>>
        \/ level = 2 /\ MaxLevel >= 3 /\ A \in Pal3 /\ B \in Pal3 /\ level' = 3 /\ C' \in Pal3 /\ UNCHANGED <<A, B>>
Spec == Init /\ [][Next]_vars

Laws1 == level = 1 =>
    /\ Rigid(A) /\ Rigid(Inv(A))
    /\ InvLaw(A)
    /\ AdInv(A)
    /\ RMEq(Mat4(Inv(A)), Mat4(Inv(A)))
    /\ \A V \in Twists : Conj(A, V) /\ HatVee6(V) /\ HatVee3(<<V[1], V[2], V[3]>>)
    /\ \A V \in Twists : RVEq(AdV(Inv(A), AdV(A, V).v), [v |-> ScaleV(V, AdV(A, V).den), den |-> 1])
         => TRUE   \* (shape check of AdV; the numeric identity is AdInv above)
Laws2 == level = 2 =>
    /\ Rigid(Compose(A, B))
    /\ ComposeIsMatMul(A, B)
    /\ AdHom(A, B)
    /\ InvAnti(A, B)
    /\ Same(Compose(Inv(A), Compose(A, B)), B)           \* globalToLocal(A, localToGlobal(A, B)) = B
    /\ Same(Compose(A, Compose(Inv(A), B)), B)           \* and the converse
Laws3 == level = 3 => Assoc(A, B, C)

(* every branch of the logarithm's case analysis is inhabited by the palette *)
Branches == {LogBranch(q) : q \in Quats}

Dump1 == level = 1 => PrintT(ToJson([t |-> "T", A |-> A, inv |-> Inv(A), rot |-> Rot(A), adj |-> Adj(A),
                                    mat |-> Mat4(A), branch |-> LogBranch(A.q),
                                    adv |-> [V \in Twists |-> AdV(A, V)]]))
Dump2 == level = 2 => PrintT(ToJson([t |-> "P", A |-> A, B |-> B, AB |-> Mat4(Compose(A, B)),
                                    AinvB |-> Mat4(Compose(Inv(A), B))]))
Dump3 == level = 3 => PrintT(ToJson([t |-> "3", A |-> A, B |-> B, C |-> C, ABC |-> Mat4(Compose(Compose(A, B), C))]))
=============================================================================
