--------------------------- MODULE RRTLatticeMC ---------------------------
EXTENDS RRTLattice
Grid(nx, ny, nz) == {<<x, y, z>> : x \in 0 .. nx, y \in 0 .. ny, z \in 0 .. nz}
Pts332 == Grid(3, 3, 0)          \* 16 points in a plane
Pts222 == Grid(2, 2, 1)          \* 18 points in two layers
Pts333 == Grid(3, 3, 3)
Root0 == <<0, 0, 0>>
NoBoxes == {}
Wall == {<< <<1, 0, 0>>, <<1, 2, 1>> >>}                       \* a wall with a gap at y = 3
TwoBoxes == {<< <<1, 1, 0>>, <<1, 1, 3>> >>, << <<2, 0, 0>>, <<3, 0, 0>> >>}
=============================================================================
