--------------------------- MODULE LawTrace ---------------------------
(* Acceptance of numeric law traces.

   Where a property is an identity over a continuum (exp/log round trips, Jacobian = dFK/dq,
   energy balance ...) TLC cannot evaluate it.  The harness evaluates the law on the real code at
   floats drawn from the regions the property's quantifier names and logs one event per case:
       [law, region, resid, known]
   resid is the residual in units of tol/1000 of that law (<= 1000 means within tolerance), known
   is "" or the name of a known-finding class the case belongs to.  Events are sorted into
   blocks of one (law, region) each.  TLC decides
     Accept   - every event is within tolerance or belongs to a listed known finding,
     Coverage - every required (law, region) was exercised at least `min` times
                (an obligation never exercised was not decided: the run fails as machinery),
     WellFormed - the blocks partition the events and are homogeneous.                        *)
EXTENDS Integers, Sequences, FiniteSets, TLC, Json, IOUtils

In == JsonDeserialize(IOEnv.LAW_FILE)
Events == In.events
Blocks == In.blocks
Required == In.required
Known == {In.known[i] : i \in DOMAIN In.known}

VARIABLE b
Init == b = 0
Next == b = 0 /\ b' \in DOMAIN Blocks
Spec == Init /\ [][Next]_b

Blk == Blocks[b]
Homogeneous == b > 0 => \A i \in Blk.lo .. Blk.hi : Events[i].law = Blk.law /\ Events[i].region = Blk.region
WellFormed == b = 0 =>
    /\ \A i \in DOMAIN Blocks : Blocks[i].lo <= Blocks[i].hi + 1
    /\ (Len(Blocks) > 0 => Blocks[1].lo = 1 /\ Blocks[Len(Blocks)].hi = Len(Events))
    /\ \A i \in 1 .. Len(Blocks) - 1 : Blocks[i + 1].lo = Blocks[i].hi + 1
Coverage == b = 0 =>
    \A r \in DOMAIN Required :
        \E i \in DOMAIN Blocks : /\ Blocks[i].law = Required[r].law /\ Blocks[i].region = Required[r].region
                                 /\ Blocks[i].hi - Blocks[i].lo + 1 >= Required[r].min
Within(e) == e.resid <= 1000
BadSet == {i \in Blk.lo .. Blk.hi : ~Within(Events[i]) /\ Events[i].known \notin Known}
KnownSet == {i \in Blk.lo .. Blk.hi : ~Within(Events[i]) /\ Events[i].known \in Known}
(* verdict lines; the harness maps indices back to replayable cases *)
Report == b > 0 =>
    /\ (BadSet = {} \/ PrintT(ToJson([k |-> "BAD", s |-> BadSet])))        \* JSON: always one line
    /\ (KnownSet = {} \/ PrintT(ToJson([k |-> "KNOWN", s |-> KnownSet])))
    /\ PrintT(ToJson([k |-> "BLOCK", law |-> Blk.law, region |-> Blk.region, n |-> Blk.hi - Blk.lo + 1]))
Accept == b > 0 => BadSet = {}
=============================================================================
