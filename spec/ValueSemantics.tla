--------------------------- MODULE ValueSemantics ---------------------------
(* C14: operators and queries neither mutate nor alias their operands.

   A heap of numeric buffers with version counters.  Operands A and B own buffers; a pure
   operation allocates FRESH buffers for its result R; a mutation of R (element assignment on the
   object, or on any ndarray it exposes) bumps the versions of R's buffers only; a default
   constructor allocates a fresh buffer with the default content whatever happened before,
   including an in-place write to an earlier default-constructed instance.  Re-applying the
   operation to the (unchanged) operands gives the original result again.

   TLC enumerates every history  Apply(op) ; Mutate(route)* ; MutateDefault ; Default(kind) ; Reapply(op)
   over the catalogue of operations and mutation routes and checks
     OperandsUnchanged  - no step changes the version of an operand buffer,
     NoSharing          - live objects own pairwise disjoint buffer sets,
     DefaultFresh       - a default-constructed object has version-0 default content,
     ReapplySame        - the re-applied result has the value recorded for the first application.
   Every history is replayed on the real classes with byte / identity / memory-extent fingerprints. *)
EXTENDS Integers, Sequences, FiniteSets, TLC, Json

CONSTANTS Families,      \* e.g. {"tm", "screw", "wrench"}
          OpsOf,         \* [family -> set of operation names]
          Routes,        \* mutation routes on a result
          MaxMut         \* at most this many mutation steps

VARIABLES fam, op, heap, owns, phase, nmut, dflt, hist
vars == <<fam, op, heap, owns, phase, nmut, dflt, hist>>
Bufs == {"A1", "A2", "B1", "B2", "R1", "R2", "D1", "E1", "S1", "S2"}   \* A,B operands; R result; D,E defaults; S re-applied result
Init == /\ fam \in Families /\ op = "none"
        /\ heap = [b \in {"A1", "A2", "B1", "B2"} |-> [ver |-> 0, val |-> "operand"]]
        /\ owns = [o \in {"A", "B"} |-> IF o = "A" THEN {"A1", "A2"} ELSE {"B1", "B2"}]
        /\ phase = "start" /\ nmut = 0 /\ dflt = "none" /\ hist = <<>>
Ext(f, g) == [x \in DOMAIN f \cup DOMAIN g |-> IF x \in DOMAIN g THEN g[x] ELSE f[x]]

Apply == /\ phase = "start" /\ \E o \in OpsOf[fam] :
            /\ op' = o
            /\ heap' = Ext(heap, [b \in {"R1", "R2"} |-> [ver |-> 0, val |-> "f(A,B)"]])
            /\ owns' = Ext(owns, [x \in {"R"} |-> {"R1", "R2"}])
            /\ hist' = Append(hist, [step |-> "apply", op |-> o])
         /\ phase' = "applied" /\ UNCHANGED <<fam, nmut, dflt>>
Mutate == /\ phase = "applied" /\ nmut < MaxMut /\ \E r \in Routes :
            /\ heap' = [b \in DOMAIN heap |-> IF b \in owns["R"] THEN [heap[b] EXCEPT !.ver = @ + 1, !.val = "scribbled"] ELSE heap[b]]
            /\ hist' = Append(hist, [step |-> "mutate", route |-> r])
          /\ nmut' = nmut + 1 /\ UNCHANGED <<fam, op, owns, phase, dflt>>
MutateDefault == /\ phase = "applied" /\ nmut > 0        \* write into a default-constructed instance E
                 /\ heap' = Ext(heap, [b \in {"E1"} |-> [ver |-> 1, val |-> "scribbled"]])
                 /\ owns' = Ext(owns, [x \in {"E"} |-> {"E1"}])
                 /\ phase' = "edefault" /\ hist' = Append(hist, [step |-> "mutateDefault"])
                 /\ UNCHANGED <<fam, op, nmut, dflt>>
Default == /\ phase = "edefault" /\ \E k \in Families :
              /\ dflt' = k
              /\ heap' = Ext(heap, [b \in {"D1"} |-> [ver |-> 0, val |-> "default"]])   \* fresh, whatever happened to E
              /\ owns' = Ext(owns, [x \in {"D"} |-> {"D1"}])
              /\ hist' = Append(hist, [step |-> "default", kind |-> k])
           /\ phase' = "defaulted" /\ UNCHANGED <<fam, op, nmut>>
Reapply == /\ phase = "defaulted"
           /\ heap' = Ext(heap, [b \in {"S1", "S2"} |-> [ver |-> 0, val |-> "f(A,B)"]])
           /\ owns' = Ext(owns, [x \in {"S"} |-> {"S1", "S2"}])
           /\ hist' = Append(hist, [step |-> "reapply", op |-> op])
           /\ phase' = "done" /\ UNCHANGED <<fam, op, nmut, dflt>>
Next == Apply \/ Mutate \/ MutateDefault \/ Default \/ Reapply
Spec == Init /\ [][Next]_vars

OperandsUnchanged == \A b \in {"A1", "A2", "B1", "B2"} : heap[b] = [ver |-> 0, val |-> "operand"]
NoSharing == \A x, y \in DOMAIN owns : x # y => owns[x] \cap owns[y] = {}
DefaultFresh == "D" \in DOMAIN owns => \A b \in owns["D"] : heap[b] = [ver |-> 0, val |-> "default"]
ReapplySame == phase = "done" => \A b \in owns["S"] : heap[b].val = "f(A,B)" /\ heap[b].ver = 0
Dump == phase = "done" => PrintT(ToJson([fam |-> fam, h |-> hist]))
=============================================================================
