--------------------------- MODULE QSE3 ---------------------------
(* Exact rigid motions for TLC: the group fragment of the library evaluated in integers.

   A rotation is an integer quaternion q = <<w,x,y,z>> (not normalised): its matrix is
   N(q)/|q|^2 with the integer numerator N(q).  A transform is [q, p, d]: rotation q,
   translation p/d (p integer 3-vector, d positive integer).  Rational matrices are
   [m |-> integer matrix, den |-> positive integer].  Equality is by cross-multiplication.
   All quantities stay far below 2^31 for the palettes used (TLC would raise an overflow
   error otherwise - never a silent wrap).                                                 *)
EXTENDS Integers, Sequences, FiniteSets

(* ---------------- small linear algebra on integer matrices (sequences of rows) ---------------- *)
Dot3(a, b) == a[1] * b[1] + a[2] * b[2] + a[3] * b[3]
Cross(a, b) == <<a[2] * b[3] - a[3] * b[2], a[3] * b[1] - a[1] * b[3], a[1] * b[2] - a[2] * b[1]>>
MatVec3(m, v) == <<Dot3(m[1], v), Dot3(m[2], v), Dot3(m[3], v)>>
Col(m, j) == [i \in DOMAIN m |-> m[i][j]]
DotN(a, b) == LET RECURSIVE S(_)
                  S(i) == IF i = 0 THEN 0 ELSE a[i] * b[i] + S(i - 1)
              IN S(Len(a))
MatMulN(a, b) == [i \in DOMAIN a |-> [j \in DOMAIN b[1] |-> DotN(a[i], Col(b, j))]]
MatVecN(a, v) == [i \in DOMAIN a |-> DotN(a[i], v)]
TransposeN(a) == [j \in DOMAIN a[1] |-> [i \in DOMAIN a |-> a[i][j]]]
ScaleM(a, k) == [i \in DOMAIN a |-> [j \in DOMAIN a[i] |-> k * a[i][j]]]
ScaleV(v, k) == [i \in DOMAIN v |-> k * v[i]]
AddV(a, b) == [i \in DOMAIN a |-> a[i] + b[i]]
SubV(a, b) == [i \in DOMAIN a |-> a[i] - b[i]]
IdN(n) == [i \in 1 .. n |-> [j \in 1 .. n |-> IF i = j THEN 1 ELSE 0]]
ZeroM(n, k) == [i \in 1 .. n |-> [j \in 1 .. k |-> 0]]
Hat3(w) == << <<0, -w[3], w[2]>>, <<w[3], 0, -w[1]>>, <<-w[2], w[1], 0>> >>
Vee3(m) == <<m[3][2], m[1][3], m[2][1]>>
Det3(m) == m[1][1] * (m[2][2] * m[3][3] - m[2][3] * m[3][2])
         - m[1][2] * (m[2][1] * m[3][3] - m[2][3] * m[3][1])
         + m[1][3] * (m[2][1] * m[3][2] - m[2][2] * m[3][1])

(* ---------------- quaternions ---------------- *)
QNorm2(q) == q[1] * q[1] + q[2] * q[2] + q[3] * q[3] + q[4] * q[4]
QMul(a, b) == << a[1] * b[1] - a[2] * b[2] - a[3] * b[3] - a[4] * b[4],
                 a[1] * b[2] + a[2] * b[1] + a[3] * b[4] - a[4] * b[3],
                 a[1] * b[3] - a[2] * b[4] + a[3] * b[1] + a[4] * b[2],
                 a[1] * b[4] + a[2] * b[3] - a[3] * b[2] + a[4] * b[1] >>
QConj(q) == <<q[1], -q[2], -q[3], -q[4]>>
QId == <<1, 0, 0, 0>>
(* N(q): |q|^2 times the rotation matrix *)
RotNum(q) == LET w == q[1]  x == q[2]  y == q[3]  z == q[4] IN
    << <<w * w + x * x - y * y - z * z, 2 * (x * y - w * z), 2 * (x * z + w * y)>>,
       <<2 * (x * y + w * z), w * w - x * x + y * y - z * z, 2 * (y * z - w * x)>>,
       <<2 * (x * z - w * y), 2 * (y * z + w * x), w * w - x * x - y * y + z * z>> >>

(* ---------------- transforms [q, p, d] ---------------- *)
Tf(q, p, d) == [q |-> q, p |-> p, d |-> d]
TId == Tf(QId, <<0, 0, 0>>, 1)
Compose(A, B) ==     \* A o B : x |-> A(B(x));  translation pA/dA + N(qA) pB / (nA dB)
    LET nA == QNorm2(A.q) IN
    Tf(QMul(A.q, B.q), AddV(ScaleV(A.p, nA * B.d), ScaleV(MatVec3(RotNum(A.q), B.p), A.d)), A.d * nA * B.d)
Inv(A) ==            \* rotation q*, translation -N(q*) p / (n d)
    Tf(QConj(A.q), ScaleV(MatVec3(RotNum(QConj(A.q)), A.p), -1), QNorm2(A.q) * A.d)
Same(A, B) ==        \* equality of the rigid motions (not of the representations)
    /\ ScaleM(RotNum(A.q), QNorm2(B.q)) = ScaleM(RotNum(B.q), QNorm2(A.q))
    /\ ScaleV(A.p, B.d) = ScaleV(B.p, A.d)
(* action on a rational point x/xd : result [v, den] *)
Act(A, x, xd) == LET n == QNorm2(A.q) IN
    [v |-> AddV(ScaleV(MatVec3(RotNum(A.q), x), A.d), ScaleV(A.p, n * xd)), den |-> n * A.d * xd]

(* ---------------- rational matrices ---------------- *)
RM(m, den) == [m |-> m, den |-> den]
RMEq(a, b) == ScaleM(a.m, b.den) = ScaleM(b.m, a.den)
RMMul(a, b) == RM(MatMulN(a.m, b.m), a.den * b.den)
RMVec(a, v) == [v |-> MatVecN(a.m, v), den |-> a.den]          \* times an integer vector
RVEq(a, b) == ScaleV(a.v, b.den) = ScaleV(b.v, a.den)
Rot(A) == RM(RotNum(A.q), QNorm2(A.q))
Mat4(A) ==           \* homogeneous matrix over the common denominator n d
    LET n == QNorm2(A.q)  Nq == RotNum(A.q) IN
    RM([i \in 1 .. 4 |-> [j \in 1 .. 4 |->
          IF i <= 3 /\ j <= 3 THEN Nq[i][j] * A.d
          ELSE IF i <= 3 THEN A.p[i] * n
          ELSE IF j = 4 THEN n * A.d ELSE 0]], n * A.d)
Adj(A) ==            \* [[R, 0], [[p] R, R]] over the common denominator n d
    LET n == QNorm2(A.q)  Nq == RotNum(A.q)  PR == MatMulN(Hat3(A.p), Nq) IN
    RM([i \in 1 .. 6 |-> [j \in 1 .. 6 |->
          IF i <= 3 /\ j <= 3 THEN Nq[i][j] * A.d
          ELSE IF i <= 3 THEN 0
          ELSE IF j <= 3 THEN PR[i - 3][j]
          ELSE Nq[i - 3][j - 3] * A.d]], n * A.d)
Hat6(V) ==           \* se(3) matrix of a twist (omega, v), integer
    LET W == Hat3(<<V[1], V[2], V[3]>>) IN
    [i \in 1 .. 4 |-> [j \in 1 .. 4 |-> IF i <= 3 /\ j <= 3 THEN W[i][j] ELSE IF i <= 3 THEN V[3 + i] ELSE 0]]
Vee6(M) == <<M[3][2], M[1][3], M[2][1], M[1][4], M[2][4], M[3][4]>>
AdV(A, V) == RMVec(Adj(A), V)                                  \* twist change of frame
AdTV(A, F) == [v |-> MatVecN(TransposeN(Adj(A).m), F), den |-> Adj(A).den]   \* wrench: Ad^T
LieAd(V) ==          \* ad(V) = [[ [w], 0 ], [ [v], [w] ]]
    LET W == Hat3(<<V[1], V[2], V[3]>>)  U == Hat3(<<V[4], V[5], V[6]>>) IN
    [i \in 1 .. 6 |-> [j \in 1 .. 6 |->
          IF i <= 3 /\ j <= 3 THEN W[i][j] ELSE IF i <= 3 THEN 0
          ELSE IF j <= 3 THEN U[i - 3][j] ELSE W[i - 3][j - 3]]]

(* ---------------- laws (evaluated by TLC on palettes) ---------------- *)
Rigid(A) == LET Nq == RotNum(A.q)  n == QNorm2(A.q) IN
    /\ MatMulN(Nq, TransposeN(Nq)) = ScaleM(IdN(3), n * n)
    /\ Det3(Nq) = n * n * n
    /\ A.d > 0 /\ n > 0
InvLaw(A) == Same(Compose(Inv(A), A), TId) /\ Same(Compose(A, Inv(A)), TId)
ComposeIsMatMul(A, B) == RMEq(Mat4(Compose(A, B)), RMMul(Mat4(A), Mat4(B)))
AdHom(A, B) == RMEq(Adj(Compose(A, B)), RMMul(Adj(A), Adj(B)))
AdInv(A) == RMEq(RMMul(Adj(Inv(A)), Adj(A)), RM(IdN(6), 1))
Conj(A, V) ==        \* T [V] T^-1 = [Ad(T) V]
    LET lhs == RMMul(RMMul(Mat4(A), RM(Hat6(V), 1)), Mat4(Inv(A)))
        av == AdV(A, V)
    IN RMEq(lhs, RM(Hat6(av.v), av.den))
HatVee3(w) == Vee3(Hat3(w)) = w
HatVee6(V) == Vee6(Hat6(V)) = V
Assoc(A, B, C) == Same(Compose(Compose(A, B), C), Compose(A, Compose(B, C)))
InvAnti(A, B) == Same(Inv(Compose(A, B)), Compose(Inv(B), Inv(A)))

(* ---------------- case analysis of the logarithm, decided exactly from q ---------------- *)
LogBranch(q) ==
    IF q[2] = 0 /\ q[3] = 0 /\ q[4] = 0 THEN "zero"
    ELSE IF q[1] # 0 THEN "generic"
    ELSE IF q[4] # 0 THEN "halfZ" ELSE IF q[3] # 0 THEN "halfY" ELSE "halfX"

(* ---------------- palettes ---------------- *)
RECURSIVE Gcd(_, _)
Gcd(a, b) == IF b = 0 THEN (IF a < 0 THEN -a ELSE a) ELSE Gcd(b, a % (IF b < 0 THEN -b ELSE b))
Gcd4(q) == Gcd(Gcd(q[1], q[2]), Gcd(q[3], q[4]))
Canon(q) ==          \* one representative per rotation: primitive, first non-zero component positive
    /\ q # <<0, 0, 0, 0>> /\ Gcd4(q) = 1
    /\ LET i == CHOOSE k \in 1 .. 4 : q[k] # 0 /\ \A j \in 1 .. k - 1 : q[j] = 0 IN q[i] > 0
QPal(k) == {q \in [1 .. 4 -> -k .. k] : Canon(q)}

(* ---------------- keeping numbers small: reduce by common factors (values unchanged) ---------------- *)
GcdSeq(v) == LET RECURSIVE G(_)
                 G(i) == IF i = 0 THEN 0 ELSE Gcd(v[i], G(i - 1))
             IN G(Len(v))
DivV(v, g) == [i \in DOMAIN v |-> v[i] \div g]
NormRV(v, den) ==      \* rational vector v/den in lowest terms, den > 0
    LET g0 == Gcd(GcdSeq(v), den)
        g == IF g0 = 0 THEN 1 ELSE g0
        sg == IF den < 0 THEN -1 ELSE 1
    IN [v |-> DivV(v, sg * g), den |-> den \div (sg * g)]
NormT(A) ==            \* same rigid motion, primitive quaternion and reduced translation
    LET gq == Gcd4(A.q)
        t == NormRV(A.p, A.d)
    IN Tf(DivV(A.q, IF gq = 0 THEN 1 ELSE gq), t.v, t.den)
=============================================================================
