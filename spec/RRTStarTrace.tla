--------------------------- MODULE RRTStarTrace ---------------------------
(* Trace validation for C16.  A trace is what one real run of generalGenerateTree /
   findPathGeneral exposed at its public seams (generator, spatial index, place), projected
   by the harness to integers:
     Reject : sample thrown away.  n0 = index the spatial index answered, first = brute-force
              nearest class, d / coll = the caller's distance / collision for (sample, n0)
     Place  : sample inserted.  exam = answer of the k-nearest query; closer / upto = brute-force
              bounds on any legitimate answer; ids, d, c = the caller's distance and collision
              for every examined node and n0; parent, cost = what the inserted node carried
     Final  : the tree read back from the spatial index after the run (parent index, cost)
     Path   : the returned path as node indices; nn = its last tree node; first = brute-force
              nearest class of the goal; goalLast = 1 iff the path ends with the goal pose
   Every event must be a step of RRTStar (same Place action as the lattice model).           *)
EXTENDS RRTStar, TLC, Json, IOUtils

Traces == JsonDeserialize(IOEnv.TRACE_FILE)
VARIABLES tid, l
tvars == <<tree, tid, l>>
Ev == Traces[tid].ev
SetOf(s) == {s[i] : i \in DOMAIN s}
FnOf(ids, vals) == [j \in SetOf(ids) |-> vals[CHOOSE i \in DOMAIN ids : ids[i] = j]]

TInit == /\ tid \in DOMAIN Traces /\ l = 1
         /\ tree = <<[parent |-> 0, cost |-> 0, dn |-> 0]>>

TReject(e) == /\ e.n0 \in SetOf(e.first)
              /\ RejectOK(e.n0, e.d, e.coll = 1)
              /\ UNCHANGED tree
TPlace(e) == /\ e.n0 \in SetOf(e.first)                                  \* the index answered a true nearest
             /\ SetOf(e.closer) \subseteq SetOf(e.exam)                  \* ... and a legitimate k-nearest set
             /\ SetOf(e.exam) \subseteq SetOf(e.upto)
             /\ Cardinality(SetOf(e.exam)) >= e.need
             /\ SetOf(e.exam) \cup {e.n0} \subseteq SetOf(e.ids)
             /\ LET dv == FnOf(e.ids, e.d)
                    cv == [j \in SetOf(e.ids) |-> FnOf(e.ids, e.c)[j] = 1]
                IN Place(e.n0, SetOf(e.exam), dv, cv, e.parent, e.cost)
TFinal(e) == /\ Len(e.nodes) = Len(tree)
             /\ \A i \in DOMAIN tree : tree[i].parent = e.nodes[i][1] /\ tree[i].cost = e.nodes[i][2]
             /\ Len(tree) = e.iterations + 1                             \* one node per iteration plus the root
             /\ UNCHANGED tree
TPath(e) == /\ e.nn \in SetOf(e.first)
            /\ e.path = ChainTo(tree, e.nn)
            /\ e.goalLast = 1
            /\ UNCHANGED tree

TNext == /\ l <= Len(Ev) /\ l' = l + 1 /\ tid' = tid
         /\ LET e == Ev[l] IN
            \/ e.ev = "Reject" /\ TReject(e)
            \/ e.ev = "Place" /\ TPlace(e)
            \/ e.ev = "Final" /\ TFinal(e)
            \/ e.ev = "Path" /\ TPath(e)
TSpec == TInit /\ [][TNext]_tvars
Accept == (l = Len(Ev) + 1) => PrintT(<<"ACCEPT", Traces[tid].id>>)
Progress == PrintT(<<"AT", Traces[tid].id, l>>)
=============================================================================
