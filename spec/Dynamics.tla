--------------------------- MODULE Dynamics ---------------------------
(* C08: rigid-body dynamics are physically consistent - the laws, stated over the exact lattice
   machine of MRExact (same Newton-Euler state machine, same cases).

     D1  MassSymmetric /\ MassPositive     M = M^T,  x^T M x > 0
     D2  MassFromJacobians                 M = sum_i J_i^T G_i J_i   (link-frame body Jacobians)
     D3  ForwardInverts                    ID(q, dq, ddq) = tau  <=>  M ddq = tau - c - g - J^T F
                                           (division-free form of FD(q, dq, tau) = ddq)
     D4  (all implementations agree: a conformance obligation, discharged on the code)
     D5  Decomposition                     tau = M ddq + c(q,dq) + g(q) + J^T F_tip
   D6 (passivity  dq . c = 1/2 dq^T Mdot dq), D7 (gravity = gradient of the potential) and energy
   conservation are derivative statements: they exist as law-trace laws only.               *)
EXTENDS MRExactMC

D1 == MassSymmetric /\ MassPositive
D2 == MassFromJacobians
D5 == Decomposition
D3 == Done => LET K == Cases[cs] IN
        MatVecN(Mass, K.ddq) = [k \in 1 .. N |-> res[1][k] - res[2][k] - res[3][k] - res[4][k]]
(* the velocity-product term vanishes at zero velocity and is quadratic: c(q, -dq) = c(q, dq) is checked on
   the code; here: zero velocity => zero term *)
CZeroAtRest == Done => (Cases[cs].dq = ZeroN(N) => res[2] = ZeroN(N))
=============================================================================
