--------------------------- MODULE CommsHub ---------------------------
(* Abstract machine of basic_robotics.interfaces.Comms (property C19).

   One action per public call of the hub.  Rule tables are sequences without duplicates,
   exactly as the code keeps lists with a membership test on insert.  An endpoint is a
   transport double: `inbox[e]` is what its getData() will return next (ND = a receive that
   yields no data: time-out, closed port), `sent[e]` is the sequence of sendData() calls it
   has received, `sinkLog[s]` the sequence of values a sink callback has been called with.

   Deliberate non-determinism (named, not hidden): the property does not say whether a spin
   polls an endpoint all of whose forwarding rules have been deleted.  The code does (the
   dictionary key survives).  `Spin` therefore MAY poll such an endpoint: both are
   behaviours of the specification, neither delivers anything.                            *)
EXTENDS Naturals, Sequences, FiniteSets, TLC, Json

CONSTANTS Endpoints,      \* sequence of registered names in registration order, e.g. <<"a","b">>
          Unknown,        \* set of names that are NOT registered, e.g. {"x"}
          Sinks, Sources, \* sets of sink / source identifiers (strings); a source returns its own id
          InitInbox,      \* [e \in Range(Endpoints) |-> Seq(messages \cup {ND})]
          MaxDepth,       \* bound on the number of public calls in a history
          Alphabet        \* set of operation names enabled in this configuration

VARIABLES fwd, fwdKey, sinkTab, srcTab, inbox, open, sent, sinkLog, hist
vars == <<fwd, fwdKey, sinkTab, srcTab, inbox, open, sent, sinkLog, hist>>
core == <<fwd, fwdKey, sinkTab, srcTab, inbox, open, sent, sinkLog>>

ND == "ND"
B(b) == IF b THEN "T" ELSE "F"     \* return values are logged as strings
Range(s) == {s[i] : i \in DOMAIN s}
E == Range(Endpoints)
Names == E \cup Unknown
InSeq(x, s) == \E i \in DOMAIN s : s[i] = x
Remove(x, s) == SelectSeq(s, LAMBDA y : y # x)
NoDup(s) == \A i, j \in DOMAIN s : s[i] = s[j] => i = j
Count(x, s) == Cardinality({i \in DOMAIN s : s[i] = x})

Init == /\ fwd = [e \in E |-> <<>>]
        /\ fwdKey = {}
        /\ sinkTab = [e \in E |-> <<>>]
        /\ srcTab = [e \in E |-> <<>>]
        /\ inbox = InitInbox
        /\ open = [e \in E |-> TRUE]
        /\ sent = [e \in E |-> <<>>]
        /\ sinkLog = [s \in Sinks |-> <<>>]
        /\ hist = <<>>

Proj == [sent |-> sent', sinkLog |-> sinkLog', inboxLen |-> [e \in E |-> Len(inbox'[e])]]
Log(op, a, b, ret) == hist' = Append(hist, [op |-> op, a |-> a, b |-> b, ret |-> ret, post |-> Proj])
Can(op) == op \in Alphabet /\ Len(hist) < MaxDepth

(* ---------------- registration calls: return TRUE iff the table changed --------------- *)
SetForward(i, o) ==
    /\ Can("setForwardData")
    /\ LET ok == i \in E /\ o \in E /\ ~InSeq(o, fwd[i]) IN
       /\ fwd' = IF ok THEN [fwd EXCEPT ![i] = Append(@, o)] ELSE fwd
       /\ fwdKey' = IF ok THEN fwdKey \cup {i} ELSE fwdKey
       /\ UNCHANGED <<sinkTab, srcTab, inbox, open, sent, sinkLog>>
       /\ Log("setForwardData", i, o, B(ok))

DeleteForward(i, o) ==
    /\ Can("deleteForwardingRule")
    /\ LET ok == i \in E /\ o \in E /\ InSeq(o, fwd[i]) IN
       /\ fwd' = IF ok THEN [fwd EXCEPT ![i] = Remove(o, @)] ELSE fwd
       /\ UNCHANGED <<fwdKey, sinkTab, srcTab, inbox, open, sent, sinkLog>>
       /\ Log("deleteForwardingRule", i, o, B(ok))

SetSink(e, s) ==
    /\ Can("setDataSink")
    /\ LET ok == e \in E /\ ~InSeq(s, sinkTab[e]) IN
       /\ sinkTab' = IF ok THEN [sinkTab EXCEPT ![e] = Append(@, s)] ELSE sinkTab
       /\ UNCHANGED <<fwd, fwdKey, srcTab, inbox, open, sent, sinkLog>>
       /\ Log("setDataSink", e, s, B(ok))

SetSource(e, s) ==
    /\ Can("setDataSource")
    /\ LET ok == e \in E /\ ~InSeq(s, srcTab[e]) IN
       /\ srcTab' = IF ok THEN [srcTab EXCEPT ![e] = Append(@, s)] ELSE srcTab
       /\ UNCHANGED <<fwd, fwdKey, sinkTab, inbox, open, sent, sinkLog>>
       /\ Log("setDataSource", e, s, B(ok))

(* ---------------- data path --------------------------------------------------------------
   A "hub state" record st = [inbox, sent, sinkLog, ret]; Recv and Fan are pure so that the
   same definitions serve getData and spin.                                                *)
Recv(st, e) ==  \* the transport's getData(): closed or empty or ND head => no data
    IF ~open[e] \/ st.inbox[e] = <<>> THEN [st EXCEPT !.ret = ND]
    ELSE [st EXCEPT !.ret = Head(st.inbox[e]), !.inbox[e] = Tail(@)]

RECURSIVE SendAll(_, _, _)
SendAll(sentv, dests, m) == IF dests = <<>> THEN sentv
                            ELSE SendAll([sentv EXCEPT ![Head(dests)] = Append(@, m)], Tail(dests), m)
RECURSIVE SinkAll(_, _, _)
SinkAll(logv, ss, m) == IF ss = <<>> THEN logv
                        ELSE SinkAll([logv EXCEPT ![Head(ss)] = Append(@, m)], Tail(ss), m)

Fan(st, e) ==   \* hub.getData(e) after the receive: deliver to rules unless there is no data
    IF st.ret = ND THEN st
    ELSE [st EXCEPT !.sent = SendAll(@, fwd[e], st.ret), !.sinkLog = SinkAll(@, sinkTab[e], st.ret)]

GetStep(st, e) == Fan(Recv(st, e), e)
SrcStep(st, e) == [st EXCEPT !.sent[e] = @ \o srcTab[e]]   \* each source's value (= its id) once

Cur == [inbox |-> inbox, sent |-> sent, sinkLog |-> sinkLog, ret |-> ND]

GetData(n) ==
    /\ Can("getData")
    /\ LET st == IF n \in E THEN GetStep(Cur, n) ELSE Cur IN
       /\ inbox' = st.inbox /\ sent' = st.sent /\ sinkLog' = st.sinkLog
       /\ UNCHANGED <<fwd, fwdKey, sinkTab, srcTab, open>>
       /\ Log("getData", n, "", st.ret)

SendData(n, m) ==
    /\ Can("sendData")
    /\ sent' = IF n \in E THEN [sent EXCEPT ![n] = Append(@, m)] ELSE sent
    /\ UNCHANGED <<fwd, fwdKey, sinkTab, srcTab, inbox, open, sinkLog>>
    /\ Log("sendData", n, m, "")

HasRules(e) == fwd[e] # <<>> \/ sinkTab[e] # <<>>
MayPoll(e) == e \in fwdKey /\ ~HasRules(e)      \* only stale, empty rule lists: polling is unspecified

RECURSIVE SpinFrom(_, _, _)
SpinFrom(st, i, polls) ==   \* endpoints in registration order: sources, then one receive
    IF i > Len(Endpoints) THEN st
    ELSE LET e == Endpoints[i]
             s1 == SrcStep(st, e)
             s2 == IF HasRules(e) \/ e \in polls THEN GetStep(s1, e) ELSE s1
         IN SpinFrom(s2, i + 1, polls)

Spin ==
    /\ Can("spin")
    /\ \E polls \in SUBSET {e \in E : MayPoll(e)} :
         LET st == SpinFrom(Cur, 1, polls) IN
         /\ inbox' = st.inbox /\ sent' = st.sent /\ sinkLog' = st.sinkLog
         /\ UNCHANGED <<fwd, fwdKey, sinkTab, srcTab, open>>
         /\ Log("spin", "", "", "")

OpenCom(e) == /\ Can("openCom")
              /\ open' = [open EXCEPT ![e] = TRUE]
              /\ UNCHANGED <<fwd, fwdKey, sinkTab, srcTab, inbox, sent, sinkLog>>
              /\ Log("openCom", e, "", "")
CloseCom(e) == /\ Can("closeCom")
               /\ open' = [open EXCEPT ![e] = FALSE]
               /\ UNCHANGED <<fwd, fwdKey, sinkTab, srcTab, inbox, sent, sinkLog>>
               /\ Log("closeCom", e, "", "")

Next == \/ \E i, o \in Names : SetForward(i, o) \/ DeleteForward(i, o)
        \/ \E e \in Names, s \in Sinks : SetSink(e, s)
        \/ \E e \in Names, s \in Sources : SetSource(e, s)
        \/ \E n \in Names : GetData(n) \/ SendData(n, "out")
        \/ Spin
        \/ \E e \in E : OpenCom(e) \/ CloseCom(e)

Spec == Init /\ [][Next]_vars

(* ============================ properties (C19) ========================================= *)
TypeOK == /\ \A e \in E : NoDup(fwd[e]) /\ NoDup(sinkTab[e]) /\ NoDup(srcTab[e])
          /\ \A e \in E : Range(fwd[e]) \subseteq E /\ Range(sinkTab[e]) \subseteq Sinks
                          /\ Range(srcTab[e]) \subseteq Sources

Last == hist'[Len(hist')]
Grew(old, new, m, k) == Len(new) = Len(old) + k /\ SubSeq(new, 1, Len(old)) = old
                        /\ \A j \in Len(old) + 1 .. Len(new) : new[j] = m

(* a getData that popped message m: once to every current destination and sink, nothing else *)
ExactlyOnceStep ==
    (hist' # hist /\ Last.op = "getData" /\ Last.a \in E /\ Last.ret # ND) =>
        LET e == Last.a  m == Last.ret IN
        /\ inbox[e] # <<>> /\ m = Head(inbox[e]) /\ inbox'[e] = Tail(inbox[e])
        /\ \A d \in E : Grew(sent[d], sent'[d], m, IF InSeq(d, fwd[e]) THEN 1 ELSE 0)
        /\ \A s \in Sinks : Grew(sinkLog[s], sinkLog'[s], m, IF InSeq(s, sinkTab[e]) THEN 1 ELSE 0)
        /\ \A d \in E \ {e} : inbox'[d] = inbox[d]
ExactlyOnce == [][ExactlyOnceStep]_vars

(* a receive that yields no data (time-out, closed, unknown port) delivers and forwards nothing *)
NoDataQuietStep ==
    (hist' # hist /\ Last.op = "getData" /\ Last.ret = ND) =>
        /\ sent' = sent /\ sinkLog' = sinkLog
        /\ \A e \in E : Len(inbox'[e]) >= Len(inbox[e]) - 1
NoDataQuiet == [][NoDataQuietStep]_vars

(* each spin sends each source's value once to its endpoint; deliveries only to active rules *)
SpinStep ==
    (hist' # hist /\ Last.op = "spin") =>
        /\ \A e \in E, s \in Sources :
              Count(s, sent'[e]) - Count(s, sent[e]) >= (IF InSeq(s, srcTab[e]) THEN 1 ELSE 0)
        /\ \A e \in E : Len(sent'[e]) - Len(sent[e]) =
              Len(srcTab[e]) + Cardinality({i \in E : InSeq(e, fwd[i]) /\ Len(inbox'[i]) < Len(inbox[i])
                                                        /\ Head(inbox[i]) # ND})
        /\ \A e \in E : ~HasRules(e) /\ e \notin fwdKey => inbox'[e] = inbox[e]
SpinSources == [][SpinStep]_vars

(* a registration call reports success exactly when it changed the rule set *)
RegStep ==
    (hist' # hist /\ Last.op \in {"setForwardData", "deleteForwardingRule", "setDataSink", "setDataSource"}) =>
        (Last.ret = "T" <=> <<fwd', sinkTab', srcTab'>> # <<fwd, sinkTab, srcTab>>)
ReturnsChanged == [][RegStep]_vars

(* anything else leaves logs alone *)
QuietStep ==
    (hist' # hist /\ Last.op \notin {"getData", "spin", "sendData"}) => sent' = sent /\ sinkLog' = sinkLog
OthersQuiet == [][QuietStep]_vars

(* ============================ behaviour export ========================================= *)
Dump == (Len(hist) = MaxDepth) => PrintT(ToJson([h |-> hist]))
=============================================================================
