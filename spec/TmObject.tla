--------------------------- MODULE TmObject ---------------------------
(* C03 (and the tm part of C04/C14): the abstract machine of the transformation class `tm`.

   An object has two representations, `taa` (6x1 translation + rotation vector) and `tm` (4x4
   matrix).  Values are TERMS over uninterpreted constructors; the harness gives every term a
   float meaning (RefEval) and compares it with the real object after every step.  Each action
   is written the way the class is written: WRITE ONE REPRESENTATION, THEN DERIVE THE OTHER
   (FromTaa / FromTm) - a writer that forgets its derive step is one deleted conjunct away.

   Two object slots are live.  An operation acts on its target slot only; the other slot must
   keep its value (this is what exposes aliasing between a result and its operands).

   Term constructors
     <<"lit",k>>            palette 6-vector k            <<"pos",k>>   its translation, zero rotation
     <<"rot",k>>            zero translation, its rotation vector
     <<"rpy",k>> <<"rpy3",k>>  translation (or none) + log(Rx Ry Rz) of its last three entries
     <<"exp",a>>            SE(3) element: translation a[0:3], rotation exp(a[3:6])
     <<"log",m>>            six-vector of the SE(3) element m
     <<"mul",m,n>> <<"inv",m>> <<"rdiv",m,n>> (= m n^-1)  <<"quatm",m,k>> (rotation of lit k, translation of m)
     <<"add",a,b>> <<"sub",a,b>> <<"adds",a,s>> <<"subs",a,s>> <<"scale",a,s>> <<"divs",a,s>> <<"abs",a>>
     <<"fdivs",a,s>> <<"upd",a,i,x>> <<"upds",a,lo,v>> <<"angmod",a>>                           *)
EXTENDS Integers, Sequences, FiniteSets, TLC, Json

CONSTANTS Lits,        \* palette indices usable as literals
          Forms,       \* constructor forms enabled
          Ops,         \* operation names enabled
          Scalars,     \* palette indices of scalars
          Targets,     \* slots every enabled operation may act on
          Slot2Ops,    \* operations that may (also) act on the slots outside Targets
          MaxDepth

VARIABLES obj, hist
vars == <<obj, hist>>
Slots == {1, 2}
Other(t) == 3 - t

Lit(k) == <<"lit", k>>
Exp(a) == IF a[1] = "log" THEN a[2] ELSE <<"exp", a>>     \* exp(log m) = m on SE(3)
Log(m) == <<"log", m>>
FromTaa(a) == [taa |-> a, tm |-> Exp(a)]      \* the writer stored the six-vector, then TAAtoTM
FromTm(m) == [taa |-> Log(m), tm |-> m]       \* the writer stored the matrix, then TMtoTAA
Identity == FromTm(<<"exp", <<"lit", 0>>>>)   \* tm(): 4x4 identity given as a matrix (lit 0 = zero vector)

Init == obj = [s \in Slots |-> Identity] /\ hist = <<>>

Can(op) == op \in Ops /\ Len(hist) < MaxDepth
Put(t, o, rec) == /\ t \in Targets \/ rec.op \in Slot2Ops
                  /\ obj' = [obj EXCEPT ![t] = o]
                  /\ hist' = Append(hist, rec @@ [t |-> t])

(* ------------------------------ constructors ------------------------------ *)
Construct(form, k, u) ==
    CASE form \in {"list6", "arr6", "arr6x1", "pair"} -> FromTaa(Lit(k))
      [] form \in {"list3", "arr3"} -> FromTaa(<<"rot", k>>)
      [] form = "rpy6" -> FromTaa(<<"rpy", k>>)
      [] form = "rpy3" -> FromTaa(<<"rpy3", k>>)
      [] form \in {"list7", "arr7"} -> FromTm(<<"quatm", <<"exp", <<"pos", k>>>>, k>>)   \* position, then setQuat
      [] form = "mat44" -> FromTm(<<"exp", Lit(k)>>)
      [] form = "tmcopy" -> [taa |-> obj[u].taa, tm |-> obj[u].tm]                        \* copies both fields
      [] form = "arr1tm" -> FromTm(obj[u].tm)                                            \* copies the matrix, derives
New(t) == /\ Can("new")
          /\ \E form \in Forms, k \in Lits :
               /\ (form \in {"tmcopy", "arr1tm"} => k = CHOOSE x \in Lits : TRUE)        \* no literal involved
               /\ Put(t, Construct(form, k, Other(t)), [op |-> "new", form |-> form, k |-> k])

(* ------------------------------ in-place writers ------------------------------ *)
STM(t) == Can("sTM") /\ \E k \in Lits : Put(t, FromTm(<<"exp", Lit(k)>>), [op |-> "sTM", k |-> k])
STAA(t) == Can("sTAA") /\ \E k \in Lits : Put(t, FromTaa(Lit(k)), [op |-> "sTAA", k |-> k])
SetE(t) == Can("set") /\ \E i \in {0, 4}, x \in Scalars :
              Put(t, FromTaa(<<"upd", obj[t].taa, i, x>>), [op |-> "set", i |-> i, x |-> x])
SetItem(t) == Can("setitem") /\ \E i \in {1, 3, 5}, x \in Scalars, ng \in {0, 1} :      \* ng = 1: the same element addressed
              Put(t, FromTaa(<<"upd", obj[t].taa, i, x>>), [op |-> "setitem", i |-> i, x |-> x, neg |-> ng])   \* from the end (i - 6)
SetSlice(t) == Can("setslice") /\ \E lo \in {0, 3}, vf \in {"list", "col"}, k \in Lits :
              Put(t, FromTaa(<<"upds", obj[t].taa, lo, k>>), [op |-> "setslice", lo |-> lo, vf |-> vf, k |-> k])
SetQuat(t) == Can("setQuat") /\ \E k \in Lits :
              Put(t, FromTm(<<"quatm", obj[t].tm, k>>), [op |-> "setQuat", k |-> k])
AngleMod(t) == Can("angleMod") /\ Put(t, FromTaa(<<"angmod", obj[t].taa>>), [op |-> "angleMod", pre |-> obj[t].taa])

(* ------------------------------ operators: fresh objects ------------------------------ *)
Copy(t) == Can("copy") /\ Put(t, [taa |-> obj[Other(t)].taa, tm |-> obj[Other(t)].tm], [op |-> "copy"])
Inv(t) == Can("inv") /\ Put(t, FromTm(<<"inv", obj[t].tm>>), [op |-> "inv"])
MatMul(t) == Can("matmul") /\ \E side \in {"tm", "rtm", "array"} :
              LET a == obj[t].tm  b == obj[Other(t)].tm IN
              Put(t, FromTm(IF side = "rtm" THEN <<"mul", b, a>> ELSE <<"mul", a, b>>), [op |-> "matmul", side |-> side])
AddSub(t) == Can("addsub") /\ \E sg \in {"add", "sub"}, w \in {"tm", "arr6", "scalar"} :
              \E k \in (IF w = "arr6" THEN Lits ELSE IF w = "scalar" THEN Scalars ELSE {0}) :
              LET a == obj[t].taa
                  r == CASE w = "tm" -> <<sg, a, obj[Other(t)].taa>>
                         [] w = "arr6" -> <<sg, a, Lit(k)>>
                         [] w = "scalar" -> <<sg \o "s", a, k>>
              IN Put(t, FromTaa(r), [op |-> "addsub", sg |-> sg, w |-> w, k |-> k])
MulDiv(t) == Can("muldiv") /\ \E f \in {"scale", "rscale", "divs"}, s \in Scalars :
              Put(t, FromTaa(<<IF f = "divs" THEN "divs" ELSE "scale", obj[t].taa, s>>), [op |-> "muldiv", f |-> f, s |-> s])
AbsV(t) == Can("abs") /\ Put(t, FromTaa(<<"abs", obj[t].taa>>), [op |-> "abs"])
FloorDiv(t) == Can("floordiv") /\
              \/ Put(t, FromTm(<<"rdiv", obj[t].tm, obj[Other(t)].tm>>), [op |-> "floordiv", w |-> "tm", s |-> 0])
              \/ \E s \in Scalars : Put(t, FromTaa(<<"fdivs", obj[t].taa, s>>), [op |-> "floordiv", w |-> "scalar", s |-> s])
(* frame conversion works on the six-vectors of both operands *)
L2G(t) == Can("l2g") /\ Put(t, FromTm(<<"mul", Exp(obj[Other(t)].taa), Exp(obj[t].taa)>>), [op |-> "l2g"])
G2L(t) == Can("g2l") /\ Put(t, FromTm(<<"mul", <<"inv", Exp(obj[Other(t)].taa)>>, Exp(obj[t].taa)>>), [op |-> "g2l"])

Next == \E t \in Slots :
          \/ New(t) \/ STM(t) \/ STAA(t) \/ SetE(t) \/ SetItem(t) \/ SetSlice(t) \/ SetQuat(t) \/ AngleMod(t)
          \/ Copy(t) \/ Inv(t) \/ MatMul(t) \/ AddSub(t) \/ MulDiv(t) \/ AbsV(t) \/ FloorDiv(t) \/ L2G(t) \/ G2L(t)
Spec == Init /\ [][Next]_vars

(* ============================ properties ============================ *)
(* the matrix is the rigid transform described by the six-vector *)
Coherent == \A s \in Slots : Exp(obj[s].taa) = obj[s].tm
(* every matrix term is built from SE(3) constructors only *)
RECURSIVE IsSE3(_)
IsSE3(m) == CASE m[1] = "exp" -> TRUE
              [] m[1] = "inv" -> IsSE3(m[2])
              [] m[1] \in {"mul", "rdiv"} -> IsSE3(m[2]) /\ IsSE3(m[3])
              [] m[1] = "quatm" -> IsSE3(m[2])
              [] OTHER -> FALSE
Canonical == \A s \in Slots : IsSE3(obj[s].tm)
(* an operation changes its target slot only *)
OthersKeep == [][\A s \in Slots : (hist' # hist /\ hist'[Len(hist')].t # s) => obj'[s] = obj[s]]_vars
(* what was written through one representation is read back through the other *)
ReadBackStep ==
    (hist' # hist) =>
        LET e == hist'[Len(hist')] IN
        /\ e.op = "sTM" => obj'[e.t].tm = <<"exp", Lit(e.k)>>
        /\ e.op = "sTAA" => obj'[e.t].taa = Lit(e.k) /\ obj'[e.t].tm = <<"exp", Lit(e.k)>>
ReadBack == [][ReadBackStep]_vars

View == <<obj, Len(hist)>>
(* shorter histories are exported by runs with a smaller MaxDepth: the harness compares the state
   after the LAST step of each exported history, so every step of every history is compared once *)
Dump == (Len(hist) = MaxDepth) => PrintT(ToJson([h |-> hist, s |-> obj]))
=============================================================================
