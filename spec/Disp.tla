--------------------------- MODULE Disp ---------------------------
(* C20: the display function is total and shows every element it was given.

   The renderer is modelled by its LAYOUT FUNCTION: Rows(shape) is the sequence of rendered
   numeric rows, each a sequence of flat (row-major) element indices.  It is written the way
   the renderer dispatches - a 1-D array is one row, a k-D array is its leading-axis slices in
   order - and TLC checks, for every shape of the case space, the lemma that makes it a faithful
   layout: the concatenation of the rows is 0 .. size-1 in order.  The case space (kinds x
   shapes x dtypes x decimals x title parity x print switch x mode) is enumerated by TLC and
   exported with, per case, the clauses of the property that apply to it:
     total     - returns a string, raises nothing                      (every case)
     printed   - stdout is exactly that string (+ newline) unless noprint (every case)
     faithful  - the numeric fields of the rows are the elements, in Rows order, rounded to nd
                 (numeric arrays of 1..4 axes, table mode; LaTeX mode only for 2-D)          *)
EXTENDS Integers, Sequences, FiniteSets, TLC, Json

CONSTANTS MaxExt,       \* extents range over 0..MaxExt
          MaxAxes,      \* number of axes up to MaxAxes
          Decimals,     \* set of nd values
          FullAxes      \* shapes with at most this many axes get the full parameter product

RECURSIVE Size(_)
Size(sh) == IF sh = <<>> THEN 1 ELSE Head(sh) * Size(Tail(sh))

(* rows of a block whose first flat index is `base` *)
RECURSIVE RowsAt(_, _)
RowsAt(sh, base) ==
    IF Len(sh) = 1 THEN << [j \in 1 .. sh[1] |-> base + j - 1] >>
    ELSE LET sub == Tail(sh)  n == Size(Tail(sh))
             RECURSIVE Blocks(_)
             Blocks(i) == IF i = Head(sh) THEN <<>> ELSE RowsAt(sub, base + i * n) \o Blocks(i + 1)
         IN Blocks(0)
Rows(sh) == RowsAt(sh, 0)

RECURSIVE Concat(_)
Concat(rs) == IF rs = <<>> THEN <<>> ELSE Head(rs) \o Concat(Tail(rs))

Faithful(sh) == LET c == Concat(Rows(sh)) IN
                /\ Len(c) = Size(sh)
                /\ \A k \in 1 .. Len(c) : c[k] = k - 1
RowShape(sh) == \A r \in 1 .. Len(Rows(sh)) : Len(Rows(sh)[r]) = sh[Len(sh)]
RowCount(sh) == Len(Rows(sh)) = Size(SubSeq(sh, 1, Len(sh) - 1))

Kinds == {"array"}
ObjectKinds == {"scalar_int", "scalar_float", "string", "none", "list_flat", "list_nested", "tuple", "tm", "wrench",
                "tm_list", "wrench_list", "empty_list", "arr0d", "arr_inf_nan", "arr_huge", "list_mixed", "np_scalar"}
Dtypes == {"float", "int", "bool"}

VARIABLES stage, shape, c
vars == <<stage, shape, c>>
Init == stage = 0 /\ shape = <<>> /\ c = [kind |-> "seed"]

Shapes(n) == [1 .. n -> 0 .. MaxExt]
RECURSIVE SumSeq(_)
SumSeq(q) == IF q = <<>> THEN 0 ELSE Head(q) + SumSeq(Tail(q))
Clauses(cs) ==
    {"total", "printed"} \cup
    (IF cs.kind = "array" /\ Len(cs.shape) \in 1 .. 4 /\ (cs.mode = 0 \/ Len(cs.shape) = 2) THEN {"faithful"} ELSE {})

Next ==
    \/ /\ stage = 0 /\ stage' = 1 /\ c' = c
       /\ \E n \in 1 .. MaxAxes : \E sh \in Shapes(n) : shape' = sh
    \/ /\ stage = 0 /\ stage' = 2 /\ shape' = <<>>                  \* non-array objects
       /\ \E k \in ObjectKinds, nd \in {0, 3, 8}, tp \in {0, 1}, np \in {0, 1}, m \in {0} :  \* LaTeX mode is documented for 2-D matrices only
            c' = [kind |-> k, shape |-> <<>>, dtype |-> "na", nd |-> nd, tpar |-> tp, noprint |-> np, mode |-> m]
    \/ /\ stage = 1 /\ stage' = 2 /\ shape' = shape
       /\ \/ /\ Len(shape) <= FullAxes
             /\ \E d \in Dtypes, nd \in Decimals, tp \in {0, 1}, np \in {0, 1} :
                  c' = [kind |-> "array", shape |-> shape, dtype |-> d, nd |-> nd, tpar |-> tp, noprint |-> np, mode |-> 0]
          \/ /\ Len(shape) > FullAxes
             \* beyond FullAxes: float data, and the decimals spread over the shapes (every shape gets the values of
             \* Decimals in its residue class mod 3, so each nd meets many shapes of every rank)
             /\ \E d \in {"float"}, nd \in {x \in Decimals : x % 3 = SumSeq(shape) % 3}, tp \in {0, 1} :
                  c' = [kind |-> "array", shape |-> shape, dtype |-> d, nd |-> nd, tpar |-> tp, noprint |-> 1, mode |-> 0]
          \/ /\ Len(shape) = 2 /\ shape[1] > 0 /\ shape[2] > 0     \* LaTeX mode: what it is documented for
             /\ \E nd \in Decimals : c' = [kind |-> "array", shape |-> shape, dtype |-> "float", nd |-> nd,
                                           tpar |-> 0, noprint |-> 1, mode |-> 1]
Spec == Init /\ [][Next]_vars

LayoutFaithful == stage = 1 => (Faithful(shape) /\ RowShape(shape) /\ RowCount(shape))
Dump == stage = 2 =>
          PrintT(ToJson([c |-> c, clauses |-> Clauses(c),
                         rows |-> IF "faithful" \in Clauses(c) THEN Rows(c.shape) ELSE <<>>]))
=============================================================================
