--------------------------- MODULE RRTStar ---------------------------
(* C16: the abstract machine of RRTStar.generalGenerateTree / findPathGeneral.

   The tree is a sequence of nodes in insertion order (index 1 = root).  Positions, the
   caller's distance function and collision detector, and the spatial index's neighbour
   answers are PARAMETERS of the actions (the library receives the first two as callbacks
   and obtains the third from rtree): the lattice instance (RRTLattice) computes them from
   integer positions, the trace instance (RRTStarTrace) reads what a real run observed.

   One iteration of the planner =  Reject* ; Place
     Reject : a sample whose then-nearest tree node is out of [MinD, MaxD] or whose edge to it
              is blocked is thrown away (the tree does not change),
     Place  : the accepted sample is attached to the cheapest collision-free candidate among
              {then-nearest} \cup examined neighbours and appended.
   Costs are integers (lattice: exact; traces: units of 1e-4 with a rounding slack Tol).      *)
EXTENDS Integers, Sequences, FiniteSets

CONSTANTS MinD, MaxD,   \* connection distance window (same units as the distance function)
          Tol           \* rounding slack per cost comparison (0 on the lattice)

VARIABLES tree          \* Seq([parent : 0..Len, cost : Int, dn : Int])  dn = distance to then-nearest

AbsI(x) == IF x < 0 THEN -x ELSE x
(* acceptance window; within Tol of a bound (quantised float distances) both outcomes are allowed *)
Accepts(d, coll) == d >= MinD - Tol /\ d <= MaxD + Tol /\ ~coll
Rejects(d, coll) == d < MinD + Tol \/ d > MaxD - Tol \/ coll

(* candidates = the then-nearest node (already known collision-free) and every examined
   neighbour with a free edge; dv[j], cv[j] = distance / collision of the sample to node j *)
Cands(n0, exam, cv) == {n0} \cup {j \in exam : ~cv[j]}
Val(j, dv) == tree[j].cost + dv[j]
BestVal(n0, exam, dv, cv) ==
    LET V == {Val(j, dv) : j \in Cands(n0, exam, cv)} IN CHOOSE m \in V : \A x \in V : m <= x

RejectOK(n0, d, coll) == n0 \in DOMAIN tree /\ Rejects(d, coll)

Place(n0, exam, dv, cv, parent, cost) ==
    /\ n0 \in DOMAIN tree /\ exam \subseteq DOMAIN tree
    /\ Accepts(dv[n0], cv[n0])
    /\ parent \in Cands(n0, exam, cv)                         \* attached inside the examined, free set
    /\ AbsI(cost - Val(parent, dv)) <= Tol                    \* cost = parent's cost + distance to parent
    /\ Val(parent, dv) <= BestVal(n0, exam, dv, cv) + Tol     \* ... and nobody examined is strictly cheaper
    /\ tree' = Append(tree, [parent |-> parent, cost |-> cost, dn |-> dv[n0]])

(* path extraction: parent chain of the node nearest the goal, root first *)
RECURSIVE ChainTo(_, _)
ChainTo(t, j) == IF j = 0 THEN <<>> ELSE Append(ChainTo(t, t[j].parent), j)

(* ---------------- structural invariants of every reachable tree ---------------- *)
Rooted == Len(tree) >= 1 /\ tree[1].parent = 0 /\ tree[1].cost = 0
Acyclic == \A i \in 2 .. Len(tree) : tree[i].parent \in 1 .. i - 1
AcceptedInRange == \A i \in 2 .. Len(tree) : tree[i].dn >= MinD - Tol /\ tree[i].dn <= MaxD + Tol
ChainReachesRoot == \A i \in 1 .. Len(tree) : ChainTo(tree, i)[1] = 1
=============================================================================
