--------------------------- MODULE Stewart ---------------------------
(* C10: the validate / corrective-action protocol of the Stewart platform, at the grain of the code.

   The geometry is ADVERSARIAL: `c` is the current truth of the four constraint predicates
   (1 leg-length limits, 2 top above bottom, 3 joint deflection, 4 plate tilt) and `far` the
   "plates too far apart" test; every mutation of the platform state (a solve, a corrective
   action, a reset to neutral) havocs them.  The protocol is modelled step by step:

     validate(donothing, limit)  =  valid := ~far ;  stage 1 .. limit
     stage k (switch k on)       =  t := c[k] ; valid := valid /\ t ;
                                    if ~t /\ ~donothing :  corrective action k (MUTATES) ;
                                                           valid := validate(TRUE, k)    (re-validation)
   Public operations:  IK = set plates (mutates) ; validate(FALSE,4) unless protected
                       FK = solve (mutates) ; [un-invert (mutates)] ; validate(FALSE,4) unless protected
   TLC explores every switch subset and every outcome of every havoc and checks
     Sound      : a top-level verdict TRUE implies every enabled constraint holds in the state it returns in
     Bounded    : the call stack never exceeds depth 2 (re-validation never corrects again: it terminates)
     LastWord   : no mutation happens after the last check of any constraint that contributed TRUE  *)
EXTENDS Integers, Sequences, FiniteSets, TLC

CONSTANTS Revalidate      \* "upto-k" (the code: validate(TRUE, k)) - the design under check

VARIABLES c, far, sw, stack, ret, phase, ops
vars == <<c, far, sw, stack, ret, phase, ops>>
K == 1 .. 4
Frame(dn, lim) == [dn |-> dn, lim |-> lim, stage |-> 0, valid |-> TRUE, started |-> FALSE]
Top == stack[Len(stack)]
SetTop(f) == [stack EXCEPT ![Len(stack)] = f]

Init == /\ c \in [K -> BOOLEAN] /\ far \in BOOLEAN /\ sw \in SUBSET K
        /\ stack = <<>> /\ ret = "none" /\ phase = "idle" /\ ops = 0

(* a public operation starts: the platform state is mutated (solve / set plates), then validated *)
StartOp == /\ phase = "idle" /\ ops < 2
           /\ c' \in [K -> BOOLEAN] /\ far' \in BOOLEAN           \* the new pose: anything
           /\ \E protected \in BOOLEAN :
                IF protected THEN /\ phase' = "idle" /\ stack' = <<>> /\ ret' = "none"
                ELSE /\ phase' = "validating" /\ stack' = <<Frame(FALSE, 4)>> /\ ret' = "none"
           /\ ops' = ops + 1 /\ UNCHANGED sw

Begin == /\ phase = "validating" /\ ~Top.started
         /\ stack' = SetTop([Top EXCEPT !.started = TRUE, !.valid = ~far])
         /\ UNCHANGED <<c, far, sw, ret, phase, ops>>

(* one stage of the chain in the top frame *)
Stage == /\ phase = "validating" /\ Top.started /\ Top.stage < Top.lim
         /\ LET k == Top.stage + 1 IN
            IF k \notin sw THEN /\ stack' = SetTop([Top EXCEPT !.stage = k]) /\ UNCHANGED <<c, far>>
            ELSE IF c[k] THEN /\ stack' = SetTop([Top EXCEPT !.stage = k]) /\ UNCHANGED <<c, far>>
            ELSE IF Top.dn THEN /\ stack' = SetTop([Top EXCEPT !.stage = k, !.valid = FALSE]) /\ UNCHANGED <<c, far>>
            ELSE \* corrective action k: mutates the platform, then re-validates without further correction
                 /\ c' \in [K -> BOOLEAN] /\ far' \in BOOLEAN
                 /\ stack' = Append(SetTop([Top EXCEPT !.stage = k, !.valid = FALSE]),
                                    Frame(TRUE, IF Revalidate = "upto-k" THEN k ELSE IF Revalidate = "only-k" THEN k ELSE 0))
         /\ UNCHANGED <<sw, ret, phase, ops>>

(* a frame finishes: its verdict goes to the caller (the stage that called it) or to the public operation *)
Return == /\ phase = "validating" /\ Top.started /\ Top.stage = Top.lim
          /\ IF Len(stack) = 1
             THEN /\ ret' = (IF Top.valid THEN "valid" ELSE "invalid") /\ stack' = <<>> /\ phase' = "idle"
             ELSE /\ stack' = [SubSeq(stack, 1, Len(stack) - 1) EXCEPT ![Len(stack) - 1].valid = Top.valid]
                  /\ UNCHANGED <<ret, phase>>
          /\ UNCHANGED <<c, far, sw, ops>>

Next == StartOp \/ Begin \/ Stage \/ Return
Spec == Init /\ [][Next]_vars

Sound == (phase = "idle" /\ ret = "valid") => \A k \in sw : c[k]
Bounded == Len(stack) <= 2
NoNestedCorrection == \A i \in 2 .. Len(stack) : stack[i].dn
=============================================================================
