--------------------------- MODULE ValueSemanticsMC ---------------------------
EXTENDS ValueSemantics
Fams == {"tm", "screw", "wrench"}
TmOps == {"add", "sub", "matmul", "mul_tm", "floordiv_tm", "l2g", "g2l", "distance", "arcDistance", "tmAvgMidpoint",
          "tmInterpMidpoint", "closeLinearGap", "closeArcGap", "IKPath", "poseError", "geometricError", "twistToGoal", "lookAt",
          "inv", "copy", "tmctor", "abs", "T", "gTM", "gTAA", "gRot", "gPos", "getQuat", "adjoint", "exp6", "approx",
          "mul_scalar", "rmul_scalar", "div_scalar", "add_scalar", "sub_scalar", "floordiv_scalar", "matmul_array", "add_array6",
          "sub_array6", "tripleUnit", "mirror", "planeFromThreePoints", "getUnitVec", "angleBetween",
          \* neutral-element operands (identity fast paths must not hand back the operand itself)
          "add_zero", "sub_zero", "mul_one", "rmul_one", "div_one", "add_zero_array",
          "tmctor_arr1",
          \* the same object on both sides of a binary helper / operator
          "lookAt_self", "matmul_self", "add_self", "sub_self", "l2g_self", "g2l_self", "distance_self", "arcDistance_self"}                                \* the other copy-constructor form: a one-element array of a transform
SwOps == {"add", "sub", "mul_scalar", "rmul_scalar", "div_scalar", "abs", "copy", "getData", "flatten", "reshape", "cross", "dot",
          "add_array6", "sub_array6", "rsub_array6", "add_scalar", "sub_scalar", "matmul_obj", "getitem_scalar",
          "radd_zero", "radd_zero_float", "sum_builtin", "add_zero", "sub_zero", "mul_one", "rmul_one", "div_one", "radd_scalar",
          "rsub_scalar", "radd_array6", "add_zero_array", "add_self", "sub_self", "cross_self", "dot_self"}
WrOps == SwOps \cup {"getForce", "getMoment"}
MCOps == [f \in Fams |-> IF f = "tm" THEN TmOps ELSE IF f = "screw" THEN SwOps ELSE WrOps]
MCRoutes == {"setitem", "arrays", "both"}
=============================================================================
