--------------------------- MODULE ArmMC ---------------------------
EXTENDS Arm
AllOps == {"FK", "query", "IK", "move", "setArbitraryHome", "restoreOriginalEE", "randomPos"}
NoIK == {"FK", "query", "move", "setArbitraryHome", "restoreOriginalEE", "randomPos"}
KinOps == {"FK", "move", "setArbitraryHome", "restoreOriginalEE"}
G1 == {"reach1"}
G2 == {"reach1", "beyond"}
G3 == {"reach1", "reach2", "beyond"}
=============================================================================
