--------------------------- MODULE CommsHubMC ---------------------------
(* Model-checking / behaviour-generation instances of CommsHub. *)
EXTENDS CommsHub
MCEndpoints == <<"a", "b">>
MCUnknown == {"x"}
MCNoUnknown == {}
MCSinks == {"k1", "k2"}
MCSources == {"s1", "s2"}
MCInbox == [e \in {"a", "b"} |-> IF e = "a" THEN <<"m1", "ND", "m2", "m3", "m4">> ELSE <<"n1", "n2", "ND", "n3">>]
AllOps == {"setForwardData", "deleteForwardingRule", "setDataSink", "setDataSource", "getData", "sendData",
           "spin", "openCom", "closeCom"}
CoreOps == {"setForwardData", "deleteForwardingRule", "setDataSink", "setDataSource", "getData", "spin"}
ChurnOps == {"setForwardData", "deleteForwardingRule", "getData", "spin"}
SinkSrcOps == {"setDataSink", "setDataSource", "getData", "spin"}
MCEndpoints3 == <<"a", "b", "c">>
MCInbox3 == [e \in {"a", "b", "c"} |-> IF e = "a" THEN <<"m1", "ND", "m2">> ELSE IF e = "b" THEN <<"n1", "n2">> ELSE <<"ND", "p1">>]
View == <<fwd, fwdKey, sinkTab, srcTab, inbox, open, sent, sinkLog, Len(hist)>>
=============================================================================
