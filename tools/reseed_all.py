#!/usr/bin/env python3
"""Regression of detection power: every recorded seeded change (/verif/seeded/<id>/patch.diff) is applied to a scratch
worktree of /repo's HEAD (never to /repo itself), the check(s) that caught it are run against that worktree
(VF_REPO), and the outcome is compared with the record.  tools/reseed_all.py [ids...]   (scratch: /tmp/reseed)"""
import glob
import json
import os
import subprocess
import sys
import time

WT = "/tmp/reseed/wt"


def sh(cmd, **kw):
    p = subprocess.run(cmd, shell=True, stdout=subprocess.PIPE, stderr=subprocess.STDOUT, text=True, **kw)
    return p.returncode, p.stdout


def main():
    only = set(sys.argv[1:])
    sh("git -C /repo worktree remove --force %s" % WT)
    os.makedirs("/tmp/reseed", exist_ok=True)
    rc, o = sh("git -C /repo worktree add -q --detach %s HEAD" % WT)
    assert rc == 0, o
    rows = []
    try:
        for d in sorted(glob.glob("/verif/seeded/*/")):
            sid = os.path.basename(d.rstrip("/"))
            if only and sid not in only:
                continue
            meta = json.load(open(d + "meta.json"))
            checks = meta.get("detected_by") or [sid[:3]]
            sh("git -C %s reset -q --hard HEAD" % WT)
            sh("git -C %s clean -fdq" % WT)
            rc, o = sh("git -C %s apply %spatch.diff" % (WT, d))
            if rc != 0:
                rows.append((sid, "patch no longer applies", ""))
                print(sid, "patch no longer applies:", o.strip()[:200])
                continue
            for cid in checks:
                t0 = time.time()
                rc, o = sh("timeout 1700 ./check %s" % cid, cwd="/verif", env=dict(os.environ, VF_REPO=WT))
                verdict = "caught" if rc == 1 and "VIOLATION" in o else ("MACHINERY" if rc == 2 else "MISSED")
                rows.append((sid, cid, verdict))
                print("%-5s %-4s %-9s %5.0fs" % (sid, cid, verdict, time.time() - t0), flush=True)
    finally:
        sh("git -C /repo worktree remove --force %s" % WT)
    bad = [r for r in rows if r[2] != "caught"]
    print("%d runs, %d not caught: %s" % (len(rows), len(bad), bad))
    return 1 if bad else 0


if __name__ == "__main__":
    sys.exit(main())
