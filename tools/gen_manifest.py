#!/usr/bin/env python3
"""Regenerate MANIFEST.json from the table below (single source of truth for what is claimed)."""
import json
import os

HERE = os.path.dirname(os.path.dirname(os.path.abspath(__file__)))

CLAIMED = {
    "C19": dict(
        level="model_checking", design="3/C19",
        technique="TLA+ spec CommsHub.tla model-checked by TLC; TLC-generated histories replayed into the real hub; "
                  "recorded executions (doubles + UDP loopback) validated by TLC against CommsTrace.tla",
        text="TLC explores every history of the hub's abstract machine to a depth and checks exactly-once delivery, "
             "quiet no-data receives, spin sources and changed-iff-true as action properties; every generated history "
             "is replayed step by step on the real Comms object and every recorded random execution must be a "
             "behaviour of the spec. Bounded exhaustive + random, not a proof.",
        note="TLC; transport doubles written in the harness; Linux loopback UDP delivers synchronously"),
    "C15": dict(
        level="model_checking", design="3/C15",
        technique="TLA+ spec SegBox.tla: TLC proves the transcribed separating-axis test equal to the definition of "
                  "segment/box intersection on the whole lattice and validates a verdict table recorded from the real "
                  "obstruction() against the definition; random 3-decimal cases decided by TLC with an exact slab oracle",
        text="Exhaustive on the lattice the property names: every ordered segment of (-3..3)^3 against each chosen box "
             "set is decided by the definition inside TLC and compared with the real code's verdict (quick: ~20 box "
             "sets, thorough: ~170 sets plus algorithm=definition for all 3375 boxes); random float cases only where "
             "the exact answer is robust.",
        note="TLC integer arithmetic; binary64 exact on quarter-integers; robust-case filter uses 1e-3 >= 1e-9"),
    "C16": dict(
        level="model_checking", design="3/C16",
        technique="TLA+ spec RRTStar.tla/RRTLattice.tla model-checked by TLC (all sample sequences and index tie-breaks "
                  "on a lattice); TLC's sample sequences drive the real generalGenerateTree; recorded runs (lattice and "
                  "real findPath with random seeds/obstructions/budgets) validated by TLC against RRTStarTrace.tla",
        text="TLC checks rootedness, acyclicity, cost bookkeeping, free edges, accepted-in-range, cheapest-parent-at-"
             "insertion, one node per iteration and path-in-tree on the lattice model exhaustively, and decides for every "
             "recorded run of the real planner whether each Reject/Place/Final/Path event is a step of that same spec; "
             "nearest-neighbour answers are checked against brute force. Bounded exhaustive + random seeds.",
        note="TLC; rtree answers treated as inputs (checked against brute force); float costs compared in 1e-4 units"),
    "C20": dict(
        level="model_checking", design="3/C20",
        technique="TLA+ spec Disp.tla: TLC enumerates the case space (kinds x shapes x dtypes x decimals x title parity "
                  "x print switch x mode), proves the layout lemma for every shape and exports expected rows; every case "
                  "is executed on the real disp()",
        text="Exhaustive over the finite case space the property names (quick: full parameter product for <=2 axes, "
             "default parameters for 3..5 axes; thorough: full product to 4 axes): totality, printed==returned, and "
             "element-by-element faithfulness in the row order given by the spec's layout function.",
        note="TLC; harness parses numeric fields between frame characters; values chosen by the harness"),
    "C03": dict(
        level="model_checking", design="3/C03",
        technique="TLA+ spec TmObject.tla (two live transform objects, every writer/operator as 'write one "
                  "representation, derive the other' over value terms) model-checked by TLC; every TLC history "
                  "(exhaustive to depth 2-3, simulated to depth 12) replayed on real tm objects and compared with "
                  "RefEval of the spec terms",
        text="TLC checks coherence, canonical form, read-back and slot independence on every history of the abstract "
             "machine and exports the histories; the real objects are driven through each one and their matrix, "
             "six-vector (through the exponential), shapes and accessors are compared with the spec state. Bounded "
             "exhaustive + random; float meaning of terms comes from RefEval, not from TLC.",
        note="TLC for structure; RefEval (numpy/scipy) for values; 5e-6 tolerance as stated in the property"),
    "C01": dict(
        level="model_checking", design="3/C01",
        technique="TLA+ specs QSE3.tla/GroupLaws.tla: TLC checks inverse/adjoint/conjugation laws in exact integer "
                  "arithmetic on a quaternion palette and exports exact values (incl. logarithm branch) that the code's "
                  "primitives must reproduce; float regions (|w|->0, |w|->pi, |v|<=1e3) as law traces decided by TLC "
                  "against LawTrace.tla with coverage obligations",
        text="On the exact palette TLC is the oracle: every transform's inverse, adjoint, Ad(T)V, rotation and log branch "
             "are computed exactly and compared with the compiled primitives (one test per log branch/pivot). Over the "
             "continuum the laws are evaluated on the real code and TLC decides thresholds and that every law x region "
             "obligation was exercised. Sampling, not proof, off the palette.",
        note="TLC exact arithmetic; RefEval (numpy) for series/Rodrigues values; tolerances as in the property (5e-6 for "
             "laws touched by the cut-off, relative to max(1,|v|,|p|); 1e-9 relative for algebraic laws)"),
    "C04": dict(
        level="model_checking", design="3/C04",
        technique="TLA+ specs QSE3.tla/GroupLaws.tla: TLC checks associativity, inverse, composition=matrix product and "
                  "the localToGlobal/globalToLocal pair exactly on a palette and exports exact pair/triple results that "
                  "real tm objects must reproduce; constructor forms fed with harness-derived equivalent descriptions of "
                  "each palette pose; random float triples as law traces decided by TLC (LawTrace.tla)",
        text="TLC's exact matrices are the oracle for @, inv, (a@b)@c, a@(b@c), localToGlobal, globalToLocal and every "
             "documented constructor form on the palette; the same laws on random float triples are thresholded and "
             "coverage-checked by TLC. Exhaustive on the palette, sampled off it.",
        note="TLC exact arithmetic; harness derives rotation vector / quaternion / Rx*Ry*Rz angles independently"),
    "C12": dict(
        level="model_checking", design="3/C12",
        technique="TLA+ spec ScrewWrench.tla over QSE3.tla: TLC explores operator histories on two Screw/Wrench objects, "
                  "checks round-trip, functoriality, frame recording, power invariance, sum equivariance, vector-space and "
                  "moment laws exactly on every reachable object x palette frame, and exports histories with exact results "
                  "replayed on the real classes; random float frames as a law trace decided by TLC",
        text="Exact rational arithmetic inside TLC is the oracle for every history to depth 2-3 from four starting "
             "configurations (operands as objects, 6-arrays, 6x1 arrays, scalars); float frames sampled. Bounded "
             "exhaustive + random.",
        note="TLC exact arithmetic (QSE3); 1e-8 relative comparison as in the property"),
    "C05": dict(
        level="model_checking", design="3/C05",
        technique="TLA+ spec Arm.tla (base, tool anchoring, knowledge of the stored joint vector; which obligations are owed "
                  "after every call) model-checked by TLC; every TLC history (exhaustive to depth 2-3, simulated to depth 10) "
                  "replayed on every arm of the zoo with the obligations evaluated after every step by RefEval "
                  "(base * PoE(home screws, clamp theta) * tool via scipy.linalg.expm)",
        text="All operation histories over {FK, IK, move, move(stationary), setArbitraryHome, restoreOriginalEE, randomPos, "
             "queries} to a depth, on the 6R test arm (identity and random base), random chains and URDF arms: FK value, "
             "clamping, reported tool pose = pose of the stored joint state, base pose, joint frames, default-argument "
             "queries. Bounded exhaustive over histories, sampled over joint vectors/bases/tools.",
        note="TLC for the history space and bookkeeping; RefEval on pristine copies of the constructor data; 1e-7 pose tolerance"),
    "C06": dict(
        level="model_checking", design="3/C06",
        technique="same TLA+ spec Arm.tla and replay engine as C05; Jacobian/statics obligations (J1 dFK/dtheta by Richardson "
                  "differences of the code's FK, J2 body=Ad(inv T)*space, J3 tool-aligned and numerical variants, S1 power "
                  "balance, S2 round trip) evaluated in every visited state with a known joint vector",
        text="The obligations are attached by the spec to every state reachable through move / tool change / restore "
             "histories, so a Jacobian that is self-consistent but belongs to a stale kinematic model is seen. Derivative "
             "by finite differences (threshold 1e-6 relative).",
        note="TLC for the history space; finite differences of the implementation's FK; RefEval adjoints"),
    "C07": dict(
        level="model_checking", design="3/C07",
        technique="TLA+ spec Arm.tla with the IK postcondition IKPost; randomised IK campaigns on real arms (goal classes "
                  "reach/boundary/beyond/between-the-tolerances, start classes, three tolerance settings, restarts on/off, "
                  "IK / IK(protect) / IKFree, after base moves and tool changes) recorded and validated by TLC against "
                  "ArmTrace.tla; IK steps inside C05's TLC-generated histories checked for the unreachable-goal clause",
        text="Every recorded IK call must be a step of the spec whose projected residuals (computed by RefEval against "
             "base*PoE*tool) satisfy IKPost; goals between the two tolerances are generated on purpose so a swap is "
             "visible. Randomised, TLC decides each trace.",
        note="TLC trace validation; RefEval residuals; weakest reading of the position tolerance; tolerances >= 1e-5 "
             "(the exp/log cut-off hides errors below 1e-6)"),
    "C13": dict(
        level="model_checking", design="3/C13",
        technique="TLA+ spec Urdf.tla over QSE3.tla: TLC builds abstract single-chain URDFs joint by joint (every structure "
                  "to a size, larger ones by simulation), checks structural lemmas and computes the exact tool pose on a "
                  "quarter-turn palette; every exported file is written as XML, loaded by the real loader and compared "
                  "(dof, order, names, limits, FK) - also with random float values and for the five bundled files "
                  "through an independent XML walker; thresholds and coverage decided by TLC (LawTrace.tla)",
        text="Exhaustive over abstract file structures (joint types, omitted optional parts, fixed joints in any position, "
             "world link) to a size and random to 12 joints; exact oracle from TLC on the palette, RefEval off it.",
        note="TLC exact arithmetic (QSE3); RefEval chain for float variants; ElementTree walker for bundled files"),
    "C09": dict(
        level="model_checking", design="3/C09",
        technique="TLA+ spec StewartGeom.tla over QSE3.tla: TLC proves rigid-motion invariance, relative-pose dependence "
                  "and re-spin relabelling of the leg lengths exactly on a lattice platform and exports exact squared "
                  "lengths that a real SP must return; law traces over generated geometries (IK = joint distances, "
                  "invariance, FK round trip for both solvers, before/after move and spinCustom) decided by TLC "
                  "against LawTrace.tla",
        text="Exact oracle from TLC on the lattice platform; over the geometry/pose ranges of the quantifier the laws are "
             "evaluated on the real class with plate-fixed tables read through public getters, thresholds and coverage "
             "decided by TLC. Sampling off the lattice.",
        note="TLC exact arithmetic; getters for joint tables; 1e-9 for IK, 1e-3 of neutral height for FK recovery"),
    "C11": dict(
        level="model_checking", design="3/C11",
        technique="TLA+ spec StewartGeom.tla: TLC proves the row identity L*dL = d.(w x p + v) = [q x d, d].(w,v) for integer "
                  "twists and exports exact scaled rows compared with inverseJacobian(); law traces (Richardson derivative "
                  "of the code's IK lengths vs J^-1 V, static equilibrium in space and body interfaces, summed leg "
                  "wrenches, carryMassCalc) decided by TLC against LawTrace.tla",
        text="Exact rows on the lattice platform; derivative and equilibrium laws at random placements, after move and "
             "re-spin, arbitrary twists and wrenches, cond <= 1e4. Finite differences thresholded at 1e-6, equilibrium "
             "at 1e-8.",
        note="TLC exact arithmetic for rows; finite differences of the implementation's IK; float linear solves"),
    "C10": dict(
        level="model_checking", design="3/C10",
        technique="TLA+ spec Stewart.tla: the validate / corrective-action protocol modelled step by step under adversarial "
                  "constraint outcomes, model-checked by TLC for Sound / Bounded / NoNestedCorrection over all switch subsets "
                  "(and shown non-vacuous by a weakened variant); random histories of the real platform recorded at public "
                  "call boundaries (nested validate calls, verdict, coherence residuals, constraints recomputed from public "
                  "getters, query purity) and validated by TLC against StewartTrace.tla",
        text="TLC explores every interleaving of check outcomes of the protocol; every recorded public call of random "
             "histories (all 16 switch subsets, in/out-of-workspace requests, both FK solvers, reverse FK, move, re-spin, "
             "queries) must satisfy the spec's event predicate. Exhaustive on the protocol model, randomised on the code.",
        note="TLC; constraint truths recomputed by the harness from public getters; coherence at 1e-9"),
    "C18": dict(
        level="model_checking", design="3/C18",
        technique="TLA+ spec Helpers.tla over QSE3.tla: TLC checks the mirror lemmas (involution, fixes the plane, negates only "
                  "local z) for rotated off-origin frames, plane-contains-points and path laws exactly and exports exact mirror "
                  "images compared with fsr.mirror; every helper x argument form over the quantifier's domain as a law trace "
                  "with coverage obligations decided by TLC (LawTrace.tla)",
        text="Exact oracle from TLC where the relation is algebraic (mirror, plane, path); RefEval residuals for midpoints, "
             "lookAt, distances, gap closing, twists, Jacobians, sphere samplers and all angle-wrapping variants, with TLC "
             "deciding thresholds and that every helper/form was exercised.",
        note="TLC exact arithmetic; RefEval oracles (geodesic midpoint, se(3) exponential); 1e-8 / 1e-5 tolerances as stated"),
    "C02": dict(
        level="model_checking", design="3/C02",
        technique="TLA+ spec MRExact.tla: an executable exact specification of FK, both Jacobians and the Newton-Euler "
                  "recursion (as a Forward/Backward state machine) on an integer lattice of chains, evaluated by TLC with the "
                  "decomposition / symmetry / positivity / body-space / sum-of-Jacobians laws as invariants; its integers are "
                  "replayed into the port AND the vendored reference; all 47 shared functions compared on random arguments "
                  "with shape/exception/value events decided by TLC (LawTrace.tla, one coverage obligation per function)",
        text="Three-way agreement on the lattice with TLC as oracle (10 functions); off the lattice the vendored reference "
             "is the oracle the property itself names. Random differential testing, exhaustive only on the lattice cases.",
        note="TLC exact integer arithmetic; vendored modern_robotics 1.1.1 core.py (sha256 pinned)"),
    "C08": dict(
        level="model_checking", design="3/C08",
        technique="TLA+ spec Dynamics.tla over MRExact.tla: TLC checks D1 (mass matrix symmetric/positive), D2 (M = sum "
                  "J^T G J), D3 (forward inverts inverse dynamics, division-free), D5 (torque decomposition) on every lattice "
                  "case through the Newton-Euler state machine and exports exact values replayed into fmr.* and the Arm "
                  "methods; the same laws plus D4 (all inverse-dynamics implementations agree), D6 passivity, D7 gravity = "
                  "grad potential and energy drift on random chains as a law trace decided by TLC (LawTrace.tla)",
        text="Exact on the lattice (TLC is the oracle); off it the identities are evaluated on the real code for chains of "
             "1..7 joints with physically structured inertias, finite-difference identities at 1e-6, algebraic ones at "
             "1e-8; arms built through the public setters.",
        note="TLC exact integer arithmetic; RefEval link poses / potential; finite differences for D6, D7, energy"),
    "C17": dict(
        level="model_checking", design="3/C17",
        technique="TLA+ spec KernelShapes.tla: shape contracts of the loop-indexed kernels and a model of their Python "
                  "callers; TLC proves every caller (arm sizes 1..7, every link/joint index) meets its callee's contract; "
                  "contracts bound to the compiled kernels by bounds-checked probes on both sides of each contract; public "
                  "entry points run with and without NUMBA_BOUNDSCHECK=1 with every observed kernel call validated by TLC "
                  "against KernelTrace.tla; each jitted function compared with its py_func on C/F/sliced/int arguments",
        text="TLC decides the caller/contract relation and validates observed call shapes; memory safety itself is detected "
             "by Numba's bounds checker in a subprocess. Bounded (n <= 7) on the model, sampled entry-point battery on the "
             "code.",
        note="Numba bounds checker is the detector; TLC holds contracts and call-shape validation; separate numba cache "
             "for the bounds-checked runs"),
    "C14": dict(
        level="model_checking", design="3/C14",
        technique="TLA+ spec ValueSemantics.tla: heap model (buffers, versions, ownership) of pure operations, in-place "
                  "mutations of results and default constructors, model-checked by TLC (OperandsUnchanged, NoSharing, "
                  "DefaultFresh, ReapplySame); every TLC history over the operation catalogue replayed on the real classes "
                  "with byte / identity / memory-extent fingerprints and np.shares_memory; constructor and Modern Robotics "
                  "arguments fingerprinted around the call",
        text="Exhaustive over the catalogue (operators, copies, accessors, helpers of tm / Screw / Wrench) x mutation routes x "
             "default kinds to the modelled history shape; argument arrays of Arm / SP constructors and all 47 MR functions "
             "checked for byte equality after the call.",
        note="TLC for the history space; fingerprints computed by the harness; exclusions exactly as the property lists them"),
}

NOT_YET = "check not built yet in this round (planned: see DESIGN.md section 3)"


def main():
    props = [json.loads(l)["id"] for l in open(os.path.join(HERE, "properties.jsonl"))]
    checks = []
    for pid in props:
        if pid not in CLAIMED:
            continue
        c = CLAIMED[pid]
        checks.append({
            "property_id": pid,
            "quick_cmd": "./check %s --tier quick" % pid,
            "thorough_cmd": "./check %s --tier thorough" % pid,
            "evidence_file": "/verif/evidence/%s.json" % pid,
            "replay_cmd_template": "./check %s --replay {path}" % pid,
            "engine": c.get("engine", "tlc+conformance"),
            "level_claimed": {"category": c["level"], "text": c["text"], "design_ref": c["design"]},
            "level_note": c["note"],
            "technique": c["technique"],
        })
    m = {
        "version": 1,
        "setup_cmd": "./check setup",
        "hooks": {"guard": "BASIC_ROBOTICS_VERIF", "enable": "no source hooks: every observation point is a public "
                  "call wrapped from the harness; ./check exports BASIC_ROBOTICS_VERIF=1 for form only",
                  "baseline_off_cmd": "cd /repo && /venv/bin/python -m pytest -ra -q -p no:cacheprovider --timeout=900 "
                                      "--continue-on-collection-errors",
                  "source_commits": [], "add_only": True},
        "engines": [
            {"name": "tlc+conformance", "path": "/verif/check", "serves_properties": sorted(CLAIMED),
             "kind_free_text": "explicit TLA+ specifications under /verif/spec checked by TLC (exhaustive, -simulate, "
                               "trace validation), bound to the code by replaying TLC behaviours into the real objects "
                               "and validating recorded executions against the spec"}],
        "checks": checks,
        "notes": "See DESIGN.md. Known findings: known_findings.json.",
        "not_applicable": [{"property_id": p, "reason": NOT_YET} for p in props if p not in CLAIMED],
    }
    with open(os.path.join(HERE, "MANIFEST.json"), "w") as f:
        json.dump(m, f, indent=1)
    print("claimed:", sorted(CLAIMED))


if __name__ == "__main__":
    main()
