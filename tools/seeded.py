#!/usr/bin/env python3
"""Confirm a sub-agent's seeded change and run the checks against it.
   tools/seeded.py <ID> [extra check ids...]   (worktree /tmp/mut/<ID>, outputs in _out/)"""
import json
import os
import shutil
import subprocess
import sys
import time

pid = sys.argv[1]
extra = sys.argv[2:]
wt = os.environ.get("SEEDED_ROOT", "/tmp/mut") + "/" + pid
out = os.path.join(wt, "_out")
env = dict(os.environ, PYTHONPATH=wt, MPLBACKEND="Agg", PYTHONWARNINGS="ignore", NUMBA_NUM_THREADS="2", OMP_NUM_THREADS="1",
           OPENBLAS_NUM_THREADS="1", MKL_NUM_THREADS="1")      # several of these run side by side


def sh(cmd, cwd=None, timeout=1500, env=env):
    p = subprocess.run(cmd, shell=True, cwd=cwd, env=env, stdout=subprocess.PIPE, stderr=subprocess.STDOUT, text=True, timeout=timeout)
    return p.returncode, p.stdout


meta = json.load(open(os.path.join(out, "meta.json")))
patch = os.path.join(out, "patch.diff")
# the worktree is put into the state "HEAD + the recorded patch" whatever it was left in
sh("git -C %s checkout -- basic_robotics" % wt)
rc, o = sh("git -C %s apply %s" % (wt, patch))
assert rc == 0, "patch does not apply to the worktree: " + o
# 1. demo fails with the change
rc_with, o1 = sh("/venv/bin/python _out/demo.py", cwd=wt, timeout=900)
# 2. suite with the change
t0 = time.time()
rc_t, o2 = sh("/venv/bin/python -m pytest -q -p no:cacheprovider --timeout=900 --continue-on-collection-errors --deselect tests/test_interfaces_communications.py 2>&1 | tail -3", cwd=wt, timeout=4500)
suite = o2.strip().splitlines()[-1] if o2.strip() else "?"
# 3. demo passes without it (the change is taken out and put back from its own patch file: `git stash` is shared by
#    all worktrees of a repository and must not be used when several of these run side by side)
sh("git -C %s checkout -- basic_robotics" % wt)
rc_without, o3 = sh("/venv/bin/python _out/demo.py", cwd=wt, timeout=900)
rc_re, o_re = sh("git -C %s apply %s" % (wt, patch))
assert rc_re == 0, "could not re-apply the change: " + o_re
print("demo with change: rc=%d (%s) | without: rc=%d (%s)" % (rc_with, o1.strip().splitlines()[-1][:80] if o1.strip() else "", rc_without,
                                                                o3.strip().splitlines()[-1][:80] if o3.strip() else ""))
print("suite with change:", suite)
ok = rc_with != 0 and rc_without == 0 and " failed" not in suite
if not ok:
    print("NOT CONFIRMED")
    sys.exit(1)
# 4. run the checks against it: in /repo (applied, checked, reverted), or - SEEDED_IN_WORKTREE=1, for use while something
#    else needs /repo untouched - against the worktree itself (VF_REPO puts it in front of the editable install)
in_wt = os.environ.get("SEEDED_IN_WORKTREE") == "1"
results = {}
try:
    if in_wt:
        cenv = dict(os.environ, VF_REPO=wt)
    else:
        assert subprocess.run("git -C /repo status --porcelain", shell=True, stdout=subprocess.PIPE, text=True).stdout.strip() == "", "/repo not clean"
        rc, o = sh("git -C /repo apply %s" % patch)
        assert rc == 0, o
        cenv = dict(os.environ)
    for cid in [pid] + extra:
        t0 = time.time()
        rc, o = sh("timeout 1400 ./check %s" % cid, cwd="/verif", env=cenv)
        lines = [l for l in o.splitlines() if l.startswith(("VIOLATION", "  clause", "  law violated", "  rejected", "  violated", "MACHINERY", cid))]
        results[cid] = {"exit": rc, "wall_s": round(time.time() - t0, 1), "lines": lines[:8]}
        print(cid, "exit", rc, "|", lines[:3])
finally:
    if not in_wt:
        sh("git -C /repo checkout -- .")
dst = "/verif/seeded/" + pid + os.environ.get("SEEDED_SUFFIX", "")
os.makedirs(dst, exist_ok=True)
shutil.copy(patch, dst)
shutil.copy(os.path.join(out, "demo.py"), dst)
meta.update({"confirmed": {"demo_with_change_rc": rc_with, "demo_without_change_rc": rc_without, "suite_with_change": suite,
                           "commands": ["cd <worktree> && PYTHONPATH=<worktree> /venv/bin/python _out/demo.py",
                                        "pytest -q --deselect tests/test_interfaces_communications.py (in the worktree)",
                                        ("VF_REPO=<worktree with the change> ./check %s" if in_wt else "git -C /repo apply patch.diff && ./check %s && git -C /repo checkout -- .") % pid]},
             "checks": results, "detected_by": [c for c, r in results.items() if r["exit"] == 1]})
json.dump(meta, open(os.path.join(dst, "meta.json"), "w"), indent=1)
print("saved to", dst, "detected_by", meta["detected_by"])
